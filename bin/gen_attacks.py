#!/usr/bin/env python3
"""Generates attack schedules: for each guard switch of Raft.tla, the guard is turned OFF and TLC
searches for a counterexample of the invariant that guard protects; the counterexample's stimulus
sequence is stored as /verif/attacks/<guard>[-k].json. On code where the guard holds the schedule
fizzles; on code where the guard was removed or weakened it drives the real nodes into the violation.

  python3 bin/gen_attacks.py [guard ...]      (no args = all)
"""
import json
import os
import sys
import shutil

sys.path.insert(0, os.path.dirname(os.path.abspath(__file__)))
import vlib

B = {"MaxTerm": 4, "MaxLog": 4, "MaxInflight": 1, "MaxElections": 3, "MaxCmds": 1, "MaxCrash": 0}

C12 = {"Node": "{n1, n2}", "InitVoters": "{n1}", "MaxTerm": 2, "MaxLog": 6, "MaxInflight": 1, "MaxElections": 1, "MaxCmds": 1, "MaxCfgReqs": 1,
       "EdAddPromote": "{n2}", "EdAddNonvoter": "{n2}", "RoundFastSet": "{TRUE, FALSE}"}
C21 = {"Node": "{n1, n2}", "InitVoters": "{n1, n2}", "MaxTerm": 2, "MaxLog": 6, "MaxInflight": 1, "MaxElections": 1, "MaxCmds": 0, "MaxCfgReqs": 1,
       "EdDemote": "{n1, n2}", "EdRemove": "{n1, n2}", "EdForceRemove": "{n2}"}
# simulation-mode search (tlc -simulate) for guards whose counterexample is too deep for breadth-first search
SIM = {"G_StepDownOnTerm": (400000, 60), "G_LeaderOwnTerm": (600000, 90), "G_FollowerOwnTerm": (600000, 90), "G_TruncateOnConflict": (400000, 80),
       "G_ConsistencyCheck": (400000, 70), "G_FlushBeforeAck": (400000, 70), "G_LeaderFlush": (400000, 70), "G_StaleTermAppend": (400000, 80),
       "G_OwnTermBeforeConfig": (400000, 80), "G_MajorityOfVoters": (400000, 70)}
X2 = {"Node": "{n1, n2}", "InitVoters": "{n1, n2}", "MaxTerm": 4, "MaxLog": 4, "MaxInflight": 1, "MaxElections": 2, "MaxCmds": 1,
      "MaxXfers": 1, "MaxXferTries": 2, "XferTargets": "{None}"}

# guard -> list of (variant name, constants, invariants expected to break)
ATTACKS = {
    "FixD1": [("a", dict(B, FixD1="FALSE", MaxInflight=0, MaxCmds=0), ["Inv_C01"]),
              ("b", dict(B, FixD1="FALSE", MaxInflight=0, MaxCmds=0, MaxElections=2), ["Inv_C05"])],
    "G_OneVote": [("a", dict(B, G_OneVote="FALSE", MaxInflight=0, MaxCmds=0), ["Inv_C01"]),
                  ("b", dict(B, G_OneVote="FALSE", MaxInflight=0, MaxCmds=0), ["Inv_C05"])],
    "G_VoteQuorum": [("a", dict(B, G_VoteQuorum="FALSE", MaxInflight=0, MaxCmds=0), ["Inv_C01"])],
    "G_StaleTermVote": [("a", dict(B, G_StaleTermVote="FALSE", MaxInflight=0, MaxCmds=0), ["Inv_C01", "Inv_C05"])],
    "G_StepDownOnTerm": [("a", dict(B, G_StepDownOnTerm="FALSE", MaxInflight=0, MaxCmds=0), ["Inv_C01"])],
    "G_PersistVote": [("a", dict(B, G_PersistVote="FALSE", MaxInflight=0, MaxCmds=0, MaxCrash=1, MaxElections=2), ["Inv_C05"]),
                      ("b", dict(B, G_PersistVote="FALSE", MaxInflight=0, MaxCmds=0, MaxCrash=1, MaxElections=3), ["Inv_C01"])],
    "G_LeaderKnown": [("a", dict(B, G_LeaderKnown="FALSE", MaxInflight=0, MaxCmds=0), ["Inv_C17a"])],
    "G_UpToDate": [("a", dict(B, G_UpToDate="FALSE"), ["Inv_C02"])],
    "G_LeaderOwnTerm": [("a", dict(B, G_LeaderOwnTerm="FALSE", MaxTerm=5, MaxLog=5, MaxElections=4, MaxCrash=1), ["Inv_C02", "Inv_C06"])],
    "G_FollowerOwnTerm": [("a", dict(B, G_FollowerOwnTerm="FALSE", MaxTerm=5, MaxLog=5, MaxElections=4), ["Inv_C02"])],
    "G_TruncateOnConflict": [("a", dict(B, G_TruncateOnConflict="FALSE", MaxLog=5), ["Inv_C04", "Inv_C02"])],
    "G_ConsistencyCheck": [("a", dict(B, G_ConsistencyCheck="FALSE"), ["Inv_C04", "Inv_C02", "Inv_C15", "Inv_C19"])],
    "G_FlushBeforeAck": [("a", dict(B, G_FlushBeforeAck="FALSE", MaxCrash=1, MaxElections=1), ["Inv_C06"])],
    "G_LeaderFlush": [("a", dict(B, G_LeaderFlush="FALSE", MaxCrash=1, MaxElections=1), ["Inv_C06"])],
    "G_StaleTermAppend": [("a", dict(B, G_StaleTermAppend="FALSE"), ["Inv_C01", "Inv_C02", "Inv_C04", "Inv_C05"])],
    "G_CommitMonotone": [("a", {"MaxTerm": 2, "MaxLog": 4, "MaxInflight": 2, "MaxElections": 1, "MaxCmds": 2,
                                "Orphans": "TRUE", "G_CommitMonotone": "FALSE"}, ["Inv_C19"])],
    "FixD14": [("a", {"Node": "{n1, n2}", "InitVoters": "{n1}", "MaxTerm": 2, "MaxLog": 6, "MaxInflight": 1, "MaxElections": 1, "MaxCmds": 2, "MaxCfgReqs": 1,
                      "EdAddPromote": "{n2}", "RoundFastSet": "{TRUE, FALSE}", "FixD14": "FALSE"}, ["Inv_C11"])],
    "G_ReadAfterCommit": [("a", {"Node": "{n1, n2}", "InitVoters": "{n1, n2}", "MaxTerm": 2, "MaxLog": 4, "MaxInflight": 1, "MaxElections": 1, "MaxCmds": 3,
                                 "TrackClients": "TRUE", "ClientOps": '{"update", "read"}', "EagerFsm": "TRUE", "G_ReadAfterCommit": "FALSE"}, ["Inv_C07"])],
    # membership guards (small clusters growing / shrinking by one voter)
    "G_ConfigCommittedFirst": [("a", dict(C12, G_ConfigCommittedFirst="FALSE", MaxCfgReqs=2), ["Inv_C08"])],
    "G_OwnTermBeforeConfig": [("a", dict(C12, G_OwnTermBeforeConfig="FALSE", MaxElections=2, MaxTerm=3, MaxCrash=1), ["Inv_C08"])],
    "G_PromoteAfterRound": [("a", dict(C12, G_PromoteAfterRound="FALSE"), ["Inv_C11"])],
    "G_NonVoterNoElection": [("a", {"Node": "{n1, n2}", "InitVoters": "{n1}", "InitNonvoters": "{n2}", "MaxTerm": 3, "MaxLog": 3, "MaxInflight": 1, "MaxElections": 2,
                                    "G_NonVoterNoElection": "FALSE"}, ["Inv_C11"])],
    "G_StepDownWhenDemoted": [("a", dict(C21, G_StepDownWhenDemoted="FALSE"), ["Inv_C11"])],
    "G_MajorityOfVoters": [("a", {"Node": "{n1, n2, n3}", "InitVoters": "{n1, n2}", "InitNonvoters": "{n3}", "MaxTerm": 2, "MaxLog": 3, "MaxInflight": 1, "MaxElections": 1,
                                  "MaxCmds": 1, "G_MajorityOfVoters": "FALSE"}, ["Inv_C06", "Inv_C02"])],
    # leadership transfer (2 voters: the smallest cluster in which a transfer is possible)
    "G_XferCaughtUp": [("a", dict(X2, G_XferCaughtUp="FALSE"), ["Inv_C16"])],
    "G_XferBlocksEntries": [("a", dict(X2, G_XferBlocksEntries="FALSE", MaxCmds=2), ["Inv_C16"])],
    "G_XferSuccessOnHigherTerm": [("a", dict(X2, G_XferSuccessOnHigherTerm="FALSE"), ["Inv_C16"])],
}


def main():
    names = sys.argv[1:] or list(ATTACKS)
    os.makedirs(os.path.join(vlib.VERIF, "attacks"), exist_ok=True)
    for g in names:
        for var, consts, invs in ATTACKS[g]:
            w = vlib.scratch("atk")
            cexf = os.path.join(w, "cex.json")
            r = vlib.tlc(os.path.join(w, "mc"), "Raft", vlib.make_cfg(consts, invariants=invs),
                         args=["-workers", str(vlib.NCPU), "-dumpTrace", "json", cexf], timeout=int(os.environ.get("ATTACK_BFS_TIMEOUT", os.environ.get("ATTACK_TIMEOUT", "900"))))
            name = "%s-%s" % (g, var)
            if not r["violated"] and g in SIM:
                num, depth = SIM[g]
                sc = dict(consts, Reduce="FALSE")
                r = vlib.tlc(os.path.join(w, "sim"), "Raft", vlib.make_cfg(sc, invariants=invs, symmetry=False, view=False),
                             args=["-workers", str(vlib.NCPU), "-simulate", "num=%d" % num, "-depth", str(depth), "-dumpTrace", "json", cexf],
                             timeout=int(os.environ.get("ATTACK_TIMEOUT", "900")))
            if r["violated"]:
                evs = vlib.cex_events(cexf)
                s = vlib.schedule_from_events("attack-" + name, evs, consts)
                s["expect"] = r["violated"]
                s["guard"] = g
                with open(os.path.join(vlib.VERIF, "attacks", name + ".json"), "w") as f:
                    json.dump(s, f)
                print("%s: %s violated, %d steps, %d states, %.0fs" % (name, r["violated"], len(s["steps"]), r["distinct"], r["wall"]), flush=True)
            else:
                print("%s: NO counterexample (%d states, %.0fs, timed_out=%s, error=%s)" % (name, r["distinct"], r["wall"], r["timed_out"], (r["error"] or "")[:300]), flush=True)
            shutil.rmtree(w, ignore_errors=True)


if __name__ == "__main__":
    main()
