"""Per-property plans: which bounded configurations of Raft.tla are model-checked (M), which
simulation set-up generates schedules (G), which attack schedules are replayed, and which predicates
of RaftProps.tla belong to the property (O verdict)."""
import glob
import json
import os

VERIF = os.path.dirname(os.path.dirname(os.path.abspath(__file__)))

COMMON_ASSUMPTIONS = [
    "bounded model: 3-4 nodes, small numbers of terms / elections / log entries / crashes as listed in model_runs",
    "a raft handler call is atomic with respect to other nodes (single raft goroutine per node)",
    "TCP model: per-connection FIFO, no duplication inside a connection, arbitrary delay, loss of whole connections",
    "Layer-1 harness mirrors stateLoop's role-change post-processing and replicate()'s control flow (25+60 lines); all handlers, storage and codecs are the real code",
    "process-kill crash model: completed file operations survive, unflushed mmap log tail is lost",
]

ALL_INV = ["Inv_C01", "Inv_C02", "Inv_C03", "Inv_C04", "Inv_C05", "Inv_C06", "Inv_C15", "Inv_C19"]

ELECT_Q = {"name": "election-2e", "consts": {"MaxTerm": 3, "MaxLog": 3, "MaxInflight": 0, "MaxElections": 2, "MaxCrash": 0},
           "invariants": ["Inv_C01", "Inv_C05"], "timeout": 600}
REPL_Q = {"name": "replication-1e", "consts": {"MaxTerm": 3, "MaxLog": 4, "MaxInflight": 1, "MaxElections": 1, "MaxCmds": 1, "MaxCrash": 1},
          "invariants": ["Inv_C02", "Inv_C03", "Inv_C04", "Inv_C06", "Inv_C19", "Inv_C15"], "timeout": 900}

SIM_CORE = {"consts": {"MaxTerm": 12, "MaxLog": 12, "MaxCmds": 5, "MaxCrash": 2, "MaxInflight": 2, "MaxElections": 12, "Orphans": "TRUE", "Reduce": "FALSE"},
            "num": 150, "depth": 60}
SIM_CORE_T = dict(SIM_CORE, num=3000, depth=80)


def core_plan(preds, mc_quick, mc_thorough, attacks, level="model_checking"):
    return {"level": level, "preds": preds,
            "mc": {"quick": mc_quick, "thorough": mc_thorough},
            "sim": {"quick": SIM_CORE, "thorough": SIM_CORE_T},
            "attacks": attacks}


PLANS = {
    "C01": core_plan(["C01_ElectionSafety"], [ELECT_Q], [ELECT_Q], ["G_OneVote", "G_VoteQuorum", "G_StaleTermVote", "G_StepDownOnTerm", "G_PersistVote", "FixD1"]),
    "C05": core_plan(["C05_OneVotePerTerm", "C05_TermMonotone", "C05_GrantDurable"], [ELECT_Q], [ELECT_Q], ["G_OneVote", "G_PersistVote", "G_StaleTermVote", "FixD1"]),
    "C02": core_plan(["C02_CommittedAgree", "C02_LeaderCompleteness", "C02_CommittedStable"], [REPL_Q], [REPL_Q],
                     ["G_UpToDate", "G_LeaderOwnTerm", "G_FollowerOwnTerm", "G_TruncateOnConflict", "G_ConsistencyCheck"]),
    "C03": core_plan(["C03_FsmIsCommittedPrefix", "C03_FsmNotAhead"], [REPL_Q], [REPL_Q], ["G_UpToDate", "G_FollowerOwnTerm", "G_ConsistencyCheck"]),
    "C04": core_plan(["C04_LogMatching", "C04_LeaderAppendOnly"], [REPL_Q], [REPL_Q], ["G_ConsistencyCheck", "G_TruncateOnConflict"]),
    "C06": core_plan(["C06_MajorityDurable"], [REPL_Q], [REPL_Q], ["G_FlushBeforeAck", "G_LeaderFlush"]),
    "C19": core_plan(["C19_Ordered", "C19_LatestIsNewest", "C19_Monotone"], [REPL_Q], [REPL_Q], ["G_ConsistencyCheck", "G_FollowerOwnTerm"]),
}


def load_attacks(name):
    res = []
    for f in sorted(glob.glob(os.path.join(VERIF, "attacks", name + "*.json"))):
        try:
            res.append(json.load(open(f)))
        except Exception:
            pass
    return res


def extra_schedules(pid, tier, seed):
    return []
