"""Per-property plans: which bounded configurations of Raft.tla are model-checked (M), which
simulation set-up generates schedules (G), which attack schedules are replayed, and which predicates
of RaftProps.tla belong to the property (O verdict)."""
import glob
import json
import os

VERIF = os.path.dirname(os.path.dirname(os.path.abspath(__file__)))

COMMON_ASSUMPTIONS = [
    "bounded model: 3-4 nodes, small numbers of terms / elections / log entries / crashes as listed in model_runs",
    "a raft handler call is atomic with respect to other nodes (single raft goroutine per node)",
    "TCP model: per-connection FIFO, no duplication inside a connection, arbitrary delay, loss of whole connections",
    "Layer-1 harness mirrors stateLoop's role-change post-processing and replicate()'s control flow (25+60 lines); all handlers, storage and codecs are the real code",
    "process-kill crash model: completed file operations survive, unflushed mmap log tail is lost",
]

ALL_INV = ["Inv_C01", "Inv_C02", "Inv_C03", "Inv_C04", "Inv_C05", "Inv_C06", "Inv_C08", "Inv_C11", "Inv_C15", "Inv_C17a", "Inv_C19"]
REPL_INV = ["Inv_C02", "Inv_C03", "Inv_C04", "Inv_C06", "Inv_C19", "Inv_C15"]
CONF_INV = ["Inv_C08", "Inv_C11", "Inv_C06", "Inv_C02", "Inv_C01", "Inv_C19", "Inv_C15"]

# ---- bounded configurations of Raft.tla (measured: see evidence model_runs; ~50k generated states/s on 16 cores)
ELECT_Q = {"name": "election-3n-2e", "consts": {"MaxTerm": 3, "MaxLog": 3, "MaxInflight": 0, "MaxElections": 2, "MaxCrash": 0},
           "invariants": ["Inv_C01", "Inv_C05", "Inv_C17a", "Inv_C11"], "timeout": 900}
ELECT_Q1 = {"name": "election-3n-1e-repl", "consts": {"MaxTerm": 3, "MaxLog": 3, "MaxInflight": 1, "MaxElections": 1, "MaxCrash": 0, "MaxCmds": 0},
            "invariants": ["Inv_C01", "Inv_C05", "Inv_C17a", "Inv_C11"], "timeout": 900}
ELECT_2N = {"name": "election-2n-crash", "consts": {"Node": "{n1, n2}", "InitVoters": "{n1, n2}", "MaxTerm": 4, "MaxLog": 4, "MaxInflight": 0, "MaxElections": 3, "MaxCrash": 2},
            "invariants": ["Inv_C01", "Inv_C05", "Inv_C17a"], "timeout": 900}
REPL_Q3 = {"name": "replication-3n", "consts": {"MaxTerm": 2, "MaxLog": 2, "MaxInflight": 1, "MaxElections": 1, "MaxCmds": 0, "MaxCrash": 0},
           "invariants": REPL_INV, "timeout": 900}
REPL_Q2 = {"name": "replication-2n-crash", "consts": {"Node": "{n1, n2}", "InitVoters": "{n1, n2}", "MaxTerm": 3, "MaxLog": 4, "MaxInflight": 1, "MaxElections": 2, "MaxCmds": 1, "MaxCrash": 1, "Orphans": "TRUE"},
           "invariants": REPL_INV + ["Inv_C01", "Inv_C05"], "timeout": 900}
CONF_Q12 = {"name": "reconfig-1to2", "consts": {"Node": "{n1, n2}", "InitVoters": "{n1}", "MaxTerm": 2, "MaxLog": 6, "MaxInflight": 1, "MaxElections": 1, "MaxCmds": 1,
                                               "MaxCfgReqs": 1, "EdAddPromote": "{n2}", "EdAddNonvoter": "{n2}"},
            "invariants": CONF_INV, "timeout": 900}
CONF_Q21 = {"name": "reconfig-2to1", "consts": {"Node": "{n1, n2}", "InitVoters": "{n1, n2}", "MaxTerm": 2, "MaxLog": 6, "MaxInflight": 1, "MaxElections": 1, "MaxCmds": 0,
                                               "MaxCfgReqs": 1, "EdDemote": "{n1, n2}", "EdRemove": "{n1, n2}", "EdForceRemove": "{n2}"},
            "invariants": CONF_INV, "timeout": 900}
# thorough: larger bounds (minutes each)
ELECT_T = {"name": "election-3n-2e-crash", "consts": {"MaxTerm": 3, "MaxLog": 3, "MaxInflight": 0, "MaxElections": 2, "MaxCrash": 1},
           "invariants": ["Inv_C01", "Inv_C05", "Inv_C17a", "Inv_C11"], "timeout": 2400, "may_timeout": True}
REPL_T3 = {"name": "replication-3n-1cmd", "consts": {"MaxTerm": 2, "MaxLog": 3, "MaxInflight": 1, "MaxElections": 1, "MaxCmds": 1, "MaxCrash": 0},
           "invariants": REPL_INV, "timeout": 2400, "may_timeout": True}
REPL_T2 = {"name": "replication-2n-2crash", "consts": {"Node": "{n1, n2}", "InitVoters": "{n1, n2}", "MaxTerm": 4, "MaxLog": 5, "MaxInflight": 2, "MaxElections": 3, "MaxCmds": 2, "MaxCrash": 2, "Orphans": "TRUE"},
           "invariants": REPL_INV + ["Inv_C01", "Inv_C05"], "timeout": 2400, "may_timeout": True}
CONF_T = {"name": "reconfig-3n-join", "consts": {"InitVoters": "{n1, n2}", "MaxTerm": 2, "MaxLog": 5, "MaxInflight": 1, "MaxElections": 1, "MaxCmds": 0, "MaxCfgReqs": 1, "EdAddPromote": "{n3}"},
          "invariants": CONF_INV, "timeout": 2400, "may_timeout": True}

SNAP_INV = ["Inv_C09", "Inv_C12", "Inv_C15", "Inv_C19", "Inv_C03", "Inv_C02", "Inv_C04"]
SNAP_Q = {"name": "snapshot-2n", "consts": {"Node": "{n1, n2}", "InitVoters": "{n1, n2}", "MaxTerm": 2, "MaxLog": 7, "MaxInflight": 1, "MaxElections": 1, "MaxCmds": 4, "MaxSnaps": 1},
          "invariants": SNAP_INV, "timeout": 900}
SNAP_T = {"name": "snapshot-2n-lag", "consts": {"Node": "{n1, n2}", "InitVoters": "{n1, n2}", "MaxTerm": 3, "MaxLog": 8, "MaxInflight": 1, "MaxElections": 2, "MaxCmds": 5, "MaxSnaps": 2, "MaxCrash": 1},
          "invariants": SNAP_INV, "timeout": 2400, "may_timeout": True}
SIM_SNAP = {"consts": {"MaxTerm": 8, "MaxLog": 16, "MaxCmds": 9, "MaxCrash": 1, "MaxInflight": 2, "MaxElections": 6, "Orphans": "TRUE", "Reduce": "FALSE", "MaxSnaps": 3},
            "num": 100, "depth": 90}
SIM_SNAP_T = dict(SIM_SNAP, num=1500, depth=110)
SIM_CORE = {"consts": {"MaxTerm": 12, "MaxLog": 12, "MaxCmds": 5, "MaxCrash": 2, "MaxInflight": 2, "MaxElections": 12, "Orphans": "TRUE", "Reduce": "FALSE"},
            "num": 120, "depth": 60}
SIM_CORE_T = dict(SIM_CORE, num=2000, depth=80)
SIM_CONF = {"consts": {"Node": "{n1, n2, n3, n4}", "InitVoters": "{n1, n2, n3}", "MaxTerm": 10, "MaxLog": 14, "MaxCmds": 3, "MaxCrash": 1, "MaxInflight": 2, "MaxElections": 8,
                       "Orphans": "TRUE", "Reduce": "FALSE", "MaxCfgReqs": 3, "EdAddPromote": "{n4}", "EdAddNonvoter": "{n4}", "EdDemote": "{n1, n2, n3}",
                       "EdRemove": "{n1, n2, n3, n4}", "EdForceRemove": "{n3}", "EdPromote": "{n4}", "RoundFastSet": "{TRUE, FALSE}"},
            "num": 100, "depth": 70}
SIM_CONF_T = dict(SIM_CONF, num=1500, depth=90)


XFER_INV = ["Inv_C16", "Inv_C01", "Inv_C02", "Inv_C05", "Inv_C15"]
XFER_Q1 = {"name": "transfer-2n-targets", "consts": {"Node": "{n1, n2}", "InitVoters": "{n1, n2}", "MaxTerm": 3, "MaxLog": 3, "MaxInflight": 1, "MaxElections": 1, "MaxCmds": 0,
                                                    "MaxXfers": 1, "MaxXferTries": 2, "XferTargets": "{None, n1, n2}"},
           "invariants": XFER_INV, "timeout": 900}
XFER_Q2 = {"name": "transfer-2n-cmd", "consts": {"Node": "{n1, n2}", "InitVoters": "{n1, n2}", "MaxTerm": 4, "MaxLog": 4, "MaxInflight": 1, "MaxElections": 2, "MaxCmds": 1,
                                                "MaxXfers": 1, "MaxXferTries": 2, "XferTargets": "{None}"},
           "invariants": XFER_INV, "timeout": 900}
XFER_T = {"name": "transfer-3n", "consts": {"MaxTerm": 3, "MaxLog": 3, "MaxInflight": 1, "MaxElections": 1, "MaxCmds": 0, "MaxXfers": 1, "MaxXferTries": 1, "XferTargets": "{None}"},
          "invariants": XFER_INV, "timeout": 2400, "may_timeout": True}
SIM_XFER = {"consts": {"MaxTerm": 12, "MaxLog": 12, "MaxCmds": 4, "MaxCrash": 1, "MaxInflight": 2, "MaxElections": 10, "Orphans": "TRUE", "Reduce": "FALSE",
                       "MaxXfers": 3, "MaxXferTries": 6, "XferTargets": "{None, n1, n2, n3}"},
            "num": 100, "depth": 70}
SIM_XFER_T = dict(SIM_XFER, num=1500, depth=90)

CLIENT_INV = ["Inv_C07", "Inv_C03", "Inv_C02"]
ALLOPS = '{"update", "read", "barrier", "dirty"}'
CLIENT_Q = {"name": "client-2n", "consts": {"Node": "{n1, n2}", "InitVoters": "{n1, n2}", "MaxTerm": 3, "MaxLog": 4, "MaxInflight": 1, "MaxElections": 2, "MaxCmds": 2,
                                           "TrackClients": "TRUE", "ClientOps": ALLOPS}, "invariants": CLIENT_INV, "timeout": 900}
CLIENT_T = {"name": "client-2n-3ops", "consts": {"Node": "{n1, n2}", "InitVoters": "{n1, n2}", "MaxTerm": 3, "MaxLog": 4, "MaxInflight": 1, "MaxElections": 2, "MaxCmds": 3, "MaxCrash": 1,
                                                "TrackClients": "TRUE", "ClientOps": ALLOPS}, "invariants": CLIENT_INV, "timeout": 2400, "may_timeout": True}
SIM_CLIENT = {"consts": {"MaxTerm": 12, "MaxLog": 12, "MaxCmds": 10, "MaxCrash": 1, "MaxInflight": 2, "MaxElections": 10, "Orphans": "TRUE", "Reduce": "FALSE",
                         "TrackClients": "TRUE", "ClientOps": ALLOPS, "EagerFsm": "FALSE"}, "num": 100, "depth": 80}
SIM_CLIENT_T = dict(SIM_CLIENT, num=1500, depth=100)

E3 = {"ldr": True, "poll": True, "fsm": True}
FUZZ = {
    "core": {"nodes": [1, 2, 3], "voters": [1, 2, 3], "nonvoters": [], "eager": E3, "steps": 120, "crash": 0.3, "fail": 0.4, "reconfig": 0, "snapshot": 0, "maxCmds": 8},
    "conf": {"nodes": [1, 2, 3, 4], "voters": [1, 2, 3], "nonvoters": [], "eager": E3, "steps": 160, "crash": 0.15, "fail": 0.3, "reconfig": 0.8, "snapshot": 0, "maxCmds": 6},
    "snap": {"nodes": [1, 2, 3], "voters": [1, 2, 3], "nonvoters": [], "eager": E3, "steps": 200, "crash": 0.2, "fail": 0.4, "reconfig": 0, "snapshot": 1.0, "maxCmds": 14},
    "fair": {"nodes": [1, 2, 3], "voters": [1, 2, 3], "nonvoters": [], "eager": E3, "steps": 90, "crash": 0.3, "fail": 0.5, "reconfig": 0, "snapshot": 0.5, "maxCmds": 10, "fair": True},
    "fairconf": {"nodes": [1, 2, 3, 4], "voters": [1, 2, 3], "nonvoters": [], "eager": E3, "steps": 120, "crash": 0.2, "fail": 0.4, "reconfig": 0.6, "snapshot": 0.3, "maxCmds": 8, "fair": True},
    "crashpt": {"nodes": [1, 2, 3], "voters": [1, 2, 3], "nonvoters": [], "eager": E3, "steps": 220, "crash": 0.1, "fail": 0.3, "reconfig": 0, "snapshot": 0.8, "maxCmds": 14, "crashPts": 1.2},
    "xfer": {"nodes": [1, 2, 3], "voters": [1, 2, 3], "nonvoters": [], "eager": E3, "steps": 160, "crash": 0.15, "fail": 0.3, "reconfig": 0, "snapshot": 0, "maxCmds": 10, "transfer": 1.0},
    "xferconf": {"nodes": [1, 2, 3, 4], "voters": [1, 2, 3], "nonvoters": [], "eager": E3, "steps": 200, "crash": 0.1, "fail": 0.3, "reconfig": 0.6, "snapshot": 0.3, "maxCmds": 10, "transfer": 0.8, "fair": True},
    # short batches (2 entries per request): lagging followers, several requests in flight, abandoned connections
    "batch": {"nodes": [1, 2, 3], "voters": [1, 2, 3], "nonvoters": [], "eager": {"ldr": True, "poll": True, "fsm": False, "maxAppend": 2}, "steps": 220, "crash": 0.1, "fail": 0.8, "reconfig": 0, "snapshot": 0, "maxCmds": 14, "scale": 2.5},
    # partitions: one node at a time is cut off (dials / RPCs fail, nothing delivered), the rest goes on, snapshots and compaction meanwhile
    "part": {"nodes": [1, 2, 3], "voters": [1, 2, 3], "nonvoters": [], "eager": E3, "steps": 260, "crash": 0.05, "fail": 0.2, "reconfig": 0, "snapshot": 1.2, "maxCmds": 18, "partition": 1.0},
    # client semantics: updates, reads, barriers and dirty reads on every node, leader changes, crashes, partitions
    "client": {"nodes": [1, 2, 3], "voters": [1, 2, 3], "nonvoters": [], "eager": {"ldr": True, "poll": True, "fsm": False}, "steps": 200, "crash": 0.15, "fail": 0.3, "reconfig": 0,
               "snapshot": 0.3, "maxCmds": 30, "reads": 1.5, "partition": 0.5},
    "clientx": {"nodes": [1, 2, 3, 4], "voters": [1, 2, 3], "nonvoters": [], "eager": E3, "steps": 220, "crash": 0.1, "fail": 0.3, "reconfig": 0.4,
                "snapshot": 0.3, "maxCmds": 30, "reads": 1.0, "transfer": 0.4},
    "crashpart": {"nodes": [1, 2, 3], "voters": [1, 2, 3], "nonvoters": [], "eager": E3, "steps": 240, "crash": 0.05, "fail": 0.2, "reconfig": 0, "snapshot": 1.2, "maxCmds": 16, "crashPts": 1.2, "partition": 1.0},
    "all": {"nodes": [1, 2, 3, 4], "voters": [1, 2, 3], "nonvoters": [], "eager": E3, "steps": 220, "crash": 0.2, "fail": 0.3, "reconfig": 0.5, "snapshot": 0.8, "maxCmds": 12},
}


def plan(preds, mcq, mct, attacks, sim=("core",), level="model_checking", assumptions=(), fuzz=None, runs=(160, 2000)):
    fuzz = fuzz if fuzz is not None else sim
    sims = {"core": (SIM_CORE, SIM_CORE_T), "conf": (SIM_CONF, SIM_CONF_T), "snap": (SIM_SNAP, SIM_SNAP_T), "xfer": (SIM_XFER, SIM_XFER_T), "client": (SIM_CLIENT, SIM_CLIENT_T)}
    return {"level": level, "preds": preds, "mc": {"quick": mcq, "thorough": mcq + mct},
            "sims": {"quick": [sims[k][0] for k in sim], "thorough": [sims[k][1] for k in sim]},
            "fuzz": {"quick": [dict(FUZZ[k], runs=int(runs[0] * FUZZ[k].get("scale", 1))) for k in fuzz],
                     "thorough": [dict(FUZZ[k], runs=int(runs[1] * FUZZ[k].get("scale", 1))) for k in fuzz]},
            "attacks": attacks, "assumptions": list(assumptions)}


PLANS = {
    "C01": plan(["C01_ElectionSafety"], [ELECT_Q1, ELECT_2N], [ELECT_Q, ELECT_T],
                ["G_OneVote", "G_VoteQuorum", "G_StaleTermVote", "G_StepDownOnTerm", "G_PersistVote", "FixD1", "G_StaleTermAppend"], sim=("core", "conf")),
    "C05": plan(["C05_OneVotePerTerm", "C05_TermMonotone", "C05_GrantDurable"], [ELECT_Q1, ELECT_2N], [ELECT_Q, ELECT_T],
                ["G_OneVote", "G_PersistVote", "G_StaleTermVote", "FixD1", "G_StepDownOnTerm"]),
    "C02": plan(["C02_CommittedAgree", "C02_LeaderCompleteness", "C02_CommittedStable"], [REPL_Q3, REPL_Q2], [REPL_T3, REPL_T2],
                ["G_UpToDate", "G_LeaderOwnTerm", "G_FollowerOwnTerm", "G_TruncateOnConflict", "G_ConsistencyCheck", "G_MajorityOfVoters", "FixD22"], sim=("core", "conf"), fuzz=("core", "conf", "part")),
    "C03": plan(["C03_FsmIsCommittedPrefix", "C03_FsmNotAhead"], [REPL_Q3, REPL_Q2], [REPL_T3, REPL_T2], ["G_UpToDate", "G_FollowerOwnTerm", "G_ConsistencyCheck"], fuzz=("core", "part")),
    "C04": plan(["C04_LogMatching", "C04_LeaderAppendOnly"], [REPL_Q3, REPL_Q2], [REPL_T3, REPL_T2], ["G_ConsistencyCheck", "G_TruncateOnConflict", "G_StaleTermAppend"], fuzz=("core", "batch", "part")),
    "C06": plan(["C06_MajorityDurable"], [REPL_Q2, CONF_Q12, CONF_Q21], [REPL_T2, CONF_T], ["G_FlushBeforeAck", "G_LeaderFlush", "G_MajorityOfVoters", "FixD2"], sim=("core", "conf")),
    "C08": plan(["C08_OneVoterDelta", "C08_ConfigOnlyWhenSafe", "C19_LatestIsNewest", "C01_ElectionSafety", "C02_CommittedAgree", "C02_CommittedStable"], [CONF_Q12, CONF_Q21], [CONF_T], ["G_ConfigCommittedFirst", "G_OwnTermBeforeConfig"], sim=("conf",)),
    "C11": plan(["C11_OnlyVotersCampaign", "C11_OnlyVotersLead", "C11_PromoteAfterRound", "C11_StopOnlyWhenRemoved", "C11_DemotedLeaderStepsDown", "C11_OnlyVotersVote", "C06_MajorityDurable"],
                [CONF_Q12, CONF_Q21], [CONF_T], ["G_NonVoterNoElection", "G_PromoteAfterRound", "G_StepDownWhenDemoted", "G_MajorityOfVoters", "FixD14"], sim=("conf",)),
    "C09": plan(["C09_SnapshotCommitted", "C09_NoViewInvalidation", "C03_FsmIsCommittedPrefix", "C03_FsmNotAhead", "C02_CommittedAgree", "C04_LogMatching", "C19_Ordered"], [SNAP_Q], [SNAP_T], ["FixD5", "FixD11", "FixD19", "FixD23"], sim=("snap",), fuzz=("snap", "part")),
    "C12": plan(["C12_LabelOK"], [SNAP_Q], [SNAP_T], ["FixD4", "FixD20"], sim=("snap", "conf"), fuzz=("snap", "conf", "fairconf")),
    "C19": plan(["C19_Ordered", "C19_LatestIsNewest", "C19_Monotone"], [REPL_Q3, REPL_Q2], [REPL_T3, REPL_T2], ["G_ConsistencyCheck", "G_FollowerOwnTerm", "FixD19", "FixD22", "G_CommitMonotone"], sim=("core", "conf"), fuzz=("core", "conf", "batch", "part")),
    # C10: crash at every hook point inside the handlers (image of the directory at that instant), restart on the image, rejoin
    "C10": plan(["C10_RestartOK", "C01_ElectionSafety", "C02_CommittedAgree", "C02_LeaderCompleteness", "C02_CommittedStable",
                 "C03_FsmIsCommittedPrefix", "C03_FsmNotAhead", "C04_LogMatching", "C05_TermMonotone", "C05_OneVotePerTerm"],
                [REPL_Q2], [REPL_T2], ["G_FlushBeforeAck", "FixD13", "G_PersistVote", "FixD7"], sim=("core",), fuzz=("crashpt", "crashpart", "snap"),
                level="fault_enumeration", runs=(200, 2400)),
    # C15: no self-inflicted death, every task completes, shutdown completes pending tasks
    "C15": plan(["C15_NoSelfInflictedDeath", "C15_AllTasksComplete", "C15_TaskCompletesOnce"], [SNAP_Q], [SNAP_T, CONF_T], ["FixD5", "FixD11", "FixD18", "FixD23"], sim=("snap",),
                fuzz=("all", "snap", "fairconf", "part"), runs=(128, 1600)),
    # C07: client-visible semantics of updates / reads / barriers / dirty reads (ledger of submissions and completions)
    "C07": plan(["C07_UpdateAtReportedPosition", "C07_AtMostOnce", "C07_RejectedNeverApplied", "C07_RealTimeOrder", "C07_ReadsReflectAccepted",
                 "C07_ReadsOnlyCommitted", "C03_FsmIsCommittedPrefix"],
                [CLIENT_Q], [CLIENT_T], ["G_ReadAfterCommit"], sim=("client",), fuzz=("client", "clientx"), runs=(160, 2000)),
    # C16: leadership transfer (task, target choice, timeout-now RPC, timers); fair continuation after transfers (xferconf)
    "C16": plan(["C16_SuccessMeansSteppedDown", "C16_TargetEligible", "C16_NoNewEntriesDuringTransfer", "C01_ElectionSafety", "C17_Converges"],
                [XFER_Q1, XFER_Q2], [XFER_T], ["G_XferCaughtUp", "G_XferBlocksEntries", "G_XferSuccessOnHigherTerm", "D21"], sim=("xfer",),
                fuzz=("xfer", "xferconf"), runs=(128, 1600)),
    # C17: (a) leader stickiness as an action property; (b) convergence under a fair, fault-free continuation of random fault histories
    "C17": plan(["C17_LeaderStickiness", "C17_Converges"], [ELECT_Q1, ELECT_2N], [ELECT_Q, ELECT_T], ["FixD1", "G_LeaderKnown", "D21"], sim=("core",),
                fuzz=("fair", "fairconf", "xfer"), runs=(128, 1600)),
}


def load_attacks(name):
    res = []
    for f in sorted(glob.glob(os.path.join(VERIF, "attacks", name + "*.json"))):
        try:
            res.append(json.load(open(f)))
        except Exception:
            pass
    return res


def extra_schedules(pid, tier, seed):
    return []
