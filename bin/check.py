#!/usr/bin/env python3
"""Property check driver.

  python3 bin/check.py <property-id> --tier quick|thorough
  python3 bin/check.py <property-id> --replay <schedule.json>

exit 0: the property held on everything explored (KNOWN-FINDING lines possible)
exit 1: `VIOLATION property=<id> replay=<path>` -- a property operator failed on behaviour of the REAL code
exit 2: the machinery itself failed (build error against the edited tree, TLC error, time-out,
        a model counterexample that the real code does not reproduce): never a verdict
"""
import argparse
import json
import os
import shutil
import sys
import time
import traceback

sys.path.insert(0, os.path.dirname(os.path.abspath(__file__)))
import vlib
from vlib import log, HarnessError
import plans


def match_known(known, pid, pred, rec):
    for k in known:
        if k.get("status") != "known" or k.get("property") != pid:
            continue
        if k.get("pred") and k["pred"] != pred:
            continue
        w = k.get("witness", {})
        ev = rec.get("ev", {}) if rec else {}
        ok = True
        for key, val in w.items():
            if ev.get(key) != val:
                ok = False
                break
        if ok:
            return k
    return None


def find_record(files, sched, seq):
    for f in files:
        with open(f) as fh:
            for line in fh:
                if '"sched":"%s"' % sched in line and '"seq":%d,' % seq in line:
                    r = json.loads(line)
                    if r.get("sched") == sched and r.get("seq") == seq:
                        return r
    return None


def main():
    ap = argparse.ArgumentParser()
    ap.add_argument("pid")
    ap.add_argument("--tier", default=os.environ.get("VERIF_TIER", "quick"))
    ap.add_argument("--replay")
    ap.add_argument("--keep", action="store_true")
    a = ap.parse_args()
    seed = int(os.environ.get("VERIF_SEED", "1"))
    pid = a.pid
    plan = plans.PLANS.get(pid)
    if plan is None:
        log("no plan for", pid)
        return 2
    t0 = time.time()
    work = vlib.scratch(pid)
    rc = 2
    try:
        rc = run(pid, plan, a.tier, seed, work, a.replay, t0)
    except HarnessError as e:
        log("MACHINERY-ERROR property=%s %s" % (pid, e))
        rc = 2
    except Exception:
        log("MACHINERY-ERROR property=%s unexpected:\n%s" % (pid, traceback.format_exc()))
        rc = 2
    finally:
        if not a.keep:
            shutil.rmtree(work, ignore_errors=True)
    return rc


def run(pid, plan, tier, seed, work, replay, t0):
    h = vlib.build_harness(os.path.join(work, "bin"))
    preds = plan["preds"]
    known = vlib.load_known()
    assumptions = list(plans.COMMON_ASSUMPTIONS) + plan.get("assumptions", [])
    cov = {"states": 0, "transitions": 0, "traces_validated_against_impl": 0, "samples": [], "model_runs": [],
           "schedules_replayed": 0, "records_checked": 0, "attack_schedules": {}, "exhaustive": False}
    schedules = []

    if replay:
        s = json.load(open(replay))
        schedules = [s]
    else:
        # (M) exhaustive model checking of the faithful spec
        for mc in ([] if os.environ.get("VERIF_SKIP_M") else plan.get("mc", {}).get(tier, [])):
            consts = dict(mc["consts"])
            cexf = os.path.join(work, "cex-%s.json" % mc["name"])
            r = vlib.tlc(os.path.join(work, "mc-" + mc["name"]), "Raft", vlib.make_cfg(consts, invariants=mc["invariants"]),
                         args=["-workers", str(vlib.NCPU), "-dumpTrace", "json", cexf], timeout=mc.get("timeout", 900))
            if r["error"]:
                raise HarnessError("TLC failed on %s: %s" % (mc["name"], r["error"] + "\n" + r["out"][-1500:]))
            if r["timed_out"]:
                # a loaded machine: the exploration is reported as incomplete (evidence: completed=false), it is not a verdict
                log("M %s: time limit reached before the state space was exhausted (%d distinct states so far)" % (mc["name"], r["distinct"]))
            cov["states"] += r["distinct"]
            cov["transitions"] += r["generated"]
            cov["model_runs"].append({"config": mc["name"], "constants": {k: v for k, v in consts.items()}, "invariants": mc["invariants"],
                                      "distinct_states": r["distinct"], "generated": r["generated"], "wall_s": round(r["wall"], 1),
                                      "completed": not r["timed_out"], "violated": r["violated"]})
            log("M %s: %d distinct / %d generated in %.0fs%s" % (mc["name"], r["distinct"], r["generated"], r["wall"],
                                                                 (" VIOLATED " + r["violated"]) if r["violated"] else ""))
            if r["violated"]:
                evs = vlib.cex_events(cexf)
                schedules.append(vlib.schedule_from_events("mcex-%s-%s" % (mc["name"], r["violated"]), evs, consts))
        cov["exhaustive"] = all(m["completed"] for m in cov["model_runs"]) and len(cov["model_runs"]) > 0
        # (G) schedules from simulation of the faithful spec
        for si, sim in enumerate(plan.get("sims", {}).get(tier, [])):
            consts = dict(sim["consts"])
            consts["KeepHist"] = "TRUE"
            cfg = vlib.make_cfg(dict(consts, Depth=sim["depth"]), invariants=["Dump"], symmetry=False, view=False)
            r = vlib.tlc(os.path.join(work, "sim%d" % si), "RaftSim", cfg,
                         args=["-workers", "1", "-simulate", "num=%d" % sim["num"], "-depth", str(sim["depth"] + 1), "-seed", str(seed)],
                         timeout=sim.get("timeout", 600))
            if r["error"]:
                raise HarnessError("TLC simulate failed: " + r["error"][:800])
            hs = vlib.sched_lines(r["out"])[:sim["num"]]
            for k, evs in enumerate(hs):
                schedules.append(vlib.schedule_from_events("sim%d-%d-%d" % (si, seed, k), evs, consts))
            log("G simulate[%d]: %d schedules of depth %d in %.0fs" % (si, len(hs), sim["depth"], r["wall"]))
            cov["model_runs"].append({"config": "simulate-%d" % si, "constants": consts, "behaviours": len(hs), "depth": sim["depth"], "wall_s": round(r["wall"], 1)})
        # attack schedules (counterexamples of guard-off variants of the spec)
        for name in plan.get("attacks", []):
            for s in plans.load_attacks(name):
                schedules.append(s)
                cov["attack_schedules"][s["name"]] = "loaded"
        for s in plans.extra_schedules(pid, tier, seed):
            schedules.append(s)

    # replay on the real code (Layer 1) and observation check (O)
    files = vlib.run_sim(h["raft"], schedules, work)
    # randomized driver on the real code (same records; validated against the spec below)
    if not replay:
        for fi, fz in enumerate(plan.get("fuzz", {}).get(tier, [])):
            spec = dict(fz, seed=seed, name="fuzz%d" % fi)
            ff = vlib.run_fuzz(h["raft"], spec, work, tag="fuzz%d" % fi)
            fs = vlib.schedules_from_records(ff)
            schedules += fs
            files += ff
            log("fuzz[%d]: %d randomized runs of up to %d steps on the real code" % (fi, len(fs), fz["steps"]))
            cov["model_runs"].append({"config": "fuzz-%d" % fi, "spec": fz, "runs": len(fs)})
    viol = []
    if files:
        allrec = vlib.concat(files, os.path.join(work, "records.ndjson"))
        viol, nrec = vlib.obs_check(allrec, work)
        cov["records_checked"] = nrec
    cov["schedules_replayed"] = len(schedules)
    # crash points actually hit (C10): histogram per hook point
    cps = {}
    for f in files:
        for line in open(f):
            if '"crashPoint"' in line:
                for nt in json.loads(line).get("notes") or []:
                    if nt.get("kind") == "crashPoint":
                        cps[nt.get("point")] = cps.get(nt.get("point"), 0) + 1
    if cps:
        cov["crash_points_hit"] = cps
    # (T) trace validation: are the recorded real-code behaviours behaviours of the specification?
    tv = {"total_runs": 0, "accepted_runs": 0, "drifts": []}
    if files and schedules:
        groups = {}
        # runs with an armed crash point are judged by O only: the process dies in the middle of a handler, which is
        # not a step of Raft.tla (the partial effects are exactly what C10 examines on the restart record)
        cp = [s for s in schedules if any(st.get("k") == "crash" and st.get("at") for st in s["steps"])]
        cov["crash_point_runs"] = len(cp)
        for s in schedules:
            if any(st.get("k") == "crash" and st.get("at") for st in s["steps"]):
                continue
            key = json.dumps([s["nodes"], s["voters"], s["nonvoters"], s["eager"]])
            groups.setdefault(key, []).append(s)
        for key, grp in groups.items():
            names = {s["name"] for s in grp}
            gf = os.path.join(work, "grp-%d.ndjson" % len(tv["drifts"]) )
            with open(gf, "w") as out:
                for f in files:
                    for line in open(f):
                        m = line.split('"sched":"', 1)
                        if len(m) == 2 and m[1].split('"', 1)[0] in names:
                            out.write(line)
            r = vlib.trace_validate(gf, os.path.join(work, "tv"), grp[0])
            tv["total_runs"] += r["total_runs"]
            tv["accepted_runs"] += r["accepted_runs"]
            tv["drifts"] += r["drifts"]
    cov["traces_validated_against_impl"] = tv["accepted_runs"]
    cov["trace_validation"] = {"runs": tv["total_runs"]}
    os.makedirs(os.path.join(vlib.VERIF, "out", "drift"), exist_ok=True)
    for d in tv["drifts"]:
        for sc in schedules:
            if sc["name"] == d["sched"]:
                json.dump(sc, open(os.path.join(vlib.VERIF, "out", "drift", "%s-%s.json" % (pid, d["sched"])), "w"))
        log("DRIFT property=%s the real code left the specification at step %s of %s (event %s); model-checking results no longer transfer to this tree" %
            (pid, d["seq"], d["sched"], json.dumps(d["ev"])[:200]))
    # drift-directed search: where the real code left the specification, model-checking says nothing any more; continue
    # the REAL execution from exactly that point with the randomized driver and let the property operators judge
    dd_runs = 0
    if tv["drifts"] and not replay:
        byname0 = {s["name"]: s for s in schedules}
        per = int(os.environ.get("VERIF_DD_RUNS", "24" if tier == "quick" else "160"))
        base = (plan.get("fuzz", {}).get(tier) or [dict(plans.FUZZ["core"])])[0]
        for di, d in enumerate(tv["drifts"][:4]):
            sc = byname0.get(d["sched"])
            if not sc:
                continue
            prefix = sc["steps"][:max(0, d["seq"] - 1)]
            spec = dict(base, nodes=sc["nodes"], voters=sc["voters"], nonvoters=sc["nonvoters"], eager=sc["eager"],
                        runs=per, steps=100, seed=seed, name="dd%d" % di, prefix=prefix, fair=False, crashPts=0)
            ff = vlib.run_fuzz(h["raft"], spec, work, tag="dd%d" % di)
            fs = vlib.schedules_from_records(ff)
            schedules += fs
            files += ff
            dd_runs += len(fs)
            v2, n2 = vlib.obs_check(vlib.concat(ff, os.path.join(work, "dd%d.ndjson" % di)), work)
            viol += v2
            cov["records_checked"] += n2
        log("drift-directed search: %d randomized continuations from %d drift points" % (dd_runs, min(4, len(tv["drifts"]))))
    diag = {"drift_directed_runs": dd_runs, "drifts": tv["drifts"][:10]}   # run-dependent diagnostics: kept out of `coverage`
    uniq = {}
    for s in schedules:
        uniq.setdefault(vlib.sched_hash(s), s)
    cov["evaluations"] = len(schedules)
    cov["distinct_nontrivial"] = len([s for s in uniq.values() if len(s["steps"]) >= 3])
    cov["rule"] = ("schedules = TLC -simulate behaviours of the faithful spec + TLC counterexamples of guard-off spec variants (attack schedules) "
                   "+ exhaustive-model counterexamples, each replayed on real nodes; distinct = distinct stimulus sequences (sha1), non-trivial = at least 3 steps")
    for s in list(uniq.values())[:2]:
        cov["samples"].append({"name": s["name"], "steps": s["steps"][:40]})
    if not cov["samples"]:
        cov["samples"].append({"note": "no schedules"})

    # verdict: only predicates of this property, only on real observed behaviour
    mine = [v for v in viol if v[0] in preds]
    others = sorted({v[0] for v in viol if v[0] not in preds})
    if others:
        log("note: other properties' predicates failed in these runs (reported by their own checks):", ", ".join(others))
    # a model counterexample that the real code did not reproduce = the spec is wrong
    for s in schedules:
        if s["name"].startswith("mcex-"):
            if not [v for v in viol if v[1] == s["name"]]:
                raise HarnessError("model counterexample %s was not reproduced by the real code: the specification misrepresents the code" % s["name"])
    nviol = 0
    kf_lines = []
    os.makedirs(os.path.join(vlib.VERIF, "out", "replay"), exist_ok=True)
    byname = {s["name"]: s for s in schedules}
    reported = set()
    for pred, sched, seq in mine:
        rec = find_record(files, sched, seq)
        k = match_known(known, pid, pred, rec)
        if k:
            line = "KNOWN-FINDING: property=%s %s (%s at %s step %d)" % (pid, k.get("what", k.get("id", "")), pred, sched, seq)
            if k.get("id") not in reported:
                kf_lines.append(line)
                reported.add(k.get("id"))
            continue
        nviol += 1
        path = os.path.join(vlib.VERIF, "out", "replay", "%s-%s.json" % (pid, vlib.sched_hash(byname[sched])))
        with open(path, "w") as f:
            json.dump(byname[sched], f)
        log("VIOLATION property=%s replay=%s" % (pid, path))
        log("  predicate %s failed at step %d of schedule %s; event: %s" % (pred, seq, sched, json.dumps(rec.get("ev") if rec else None)))
    for l in kf_lines:
        log(l)
    cov["known_findings_hit"] = len(kf_lines)
    vlib.write_evidence(pid, tier, seed, plan["level"], cov, assumptions, time.time() - t0, nviol, extra={"diagnostics": diag})
    log("property %s tier %s: %d schedules replayed on real code, %d records checked, %d violations, %.0fs" %
        (pid, tier, len(schedules), cov["records_checked"], nviol, time.time() - t0))
    return 1 if nviol else 0


if __name__ == "__main__":
    sys.exit(main())
