#!/usr/bin/env python3
"""Binding self-test: shows that trace validation (RaftTrace.tla) really constrains the recorded behaviour.
A recorded real run is accepted; then one recorded field is corrupted / one record is removed / one task outcome is
changed, and each corrupted trace must be rejected exactly at the corrupted record.
  python3 bin/selftest_binding.py        (exit 0 = every corruption was rejected where expected)"""
import copy
import json
import os
import shutil
import sys

sys.path.insert(0, os.path.dirname(os.path.abspath(__file__)))
import vlib
import plans


def main():
    w = vlib.scratch("selftest")
    try:
        h = vlib.build_harness(os.path.join(w, "bin"))
        spec = dict(plans.FUZZ["conf"], runs=2, seed=7, name="st", steps=120)
        ff = vlib.run_fuzz(h["raft"], spec, w)
        recs = [json.loads(l) for f in ff for l in open(f)]
        run0 = [r for r in recs if r["sched"] == recs[0]["sched"]]
        sched = vlib.schedules_from_records(ff)[0]

        def validate(rs, tag):
            p = os.path.join(w, tag + ".ndjson")
            with open(p, "w") as f:
                for r in rs:
                    f.write(json.dumps(r, separators=(",", ":")) + "\n")
            return vlib.trace_validate(p, os.path.join(w, "tv-" + tag), sched)

        results = []
        base = validate(run0, "base")
        results.append(("unmodified run accepted", base["drifts"] == []))
        # 1. one scalar of one node in one record
        k = next(i for i, r in enumerate(run0) if i > 10 and any(n["up"] and n["commit"] > 0 for n in r["nodes"]))
        m = copy.deepcopy(run0)
        n = next(n for n in m[k]["nodes"] if n["up"] and n["commit"] > 0)
        n["commit"] += 1
        d = validate(m, "commit")["drifts"]
        results.append(("commit index of one node changed in record %d -> rejected there" % run0[k]["seq"], bool(d) and d[0]["seq"] == run0[k]["seq"]))
        # 2. a record removed (a step of the real run the trace does not show)
        k2 = next(i for i, r in enumerate(run0) if i > 10 and r["ev"].get("kind") == "appendReq" and r["ev"].get("result") == "success" and r["ev"]["req"]["n"] > 0)
        m = run0[:k2] + run0[k2 + 1:]
        d = validate(m, "drop")["drifts"]
        results.append(("record %d (an append handled by a follower) removed -> rejected at the next record that depends on it" % run0[k2]["seq"],
                        bool(d) and d[0]["seq"] > run0[k2]["seq"] - 1))
        # 3. a task outcome changed
        k3 = next((i for i, r in enumerate(run0) if r["done"] and r["done"][0].get("err") == "ok"), None)
        if k3 is not None:
            m = copy.deepcopy(run0)
            m[k3]["done"][0]["err"] = "notLeader"
            d = validate(m, "done")["drifts"]
            results.append(("outcome of a completed task changed in record %d -> rejected there" % run0[k3]["seq"], bool(d) and d[0]["seq"] == run0[k3]["seq"]))
        # 4. an instant observation removed (hook not firing)
        k4 = next((i for i, r in enumerate(run0) if r["ev"].get("acts")), None)
        if k4 is not None:
            m = copy.deepcopy(run0)
            m[k4]["ev"]["acts"] = []
            d = validate(m, "acts")["drifts"]
            results.append(("observations of record %d dropped (a hook that did not fire) -> rejected there" % run0[k4]["seq"], bool(d) and d[0]["seq"] == run0[k4]["seq"]))
        ok = all(r[1] for r in results)
        for name, good in results:
            print(("PASS " if good else "FAIL ") + name)
        os.makedirs(os.path.join(vlib.VERIF, "out"), exist_ok=True)
        json.dump([{"case": a, "ok": b} for a, b in results], open(os.path.join(vlib.VERIF, "out", "selftest_binding.json"), "w"), indent=1)
        return 0 if ok else 1
    finally:
        shutil.rmtree(w, ignore_errors=True)


if __name__ == "__main__":
    sys.exit(main())
