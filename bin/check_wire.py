#!/usr/bin/env python3
"""C18: wire and on-disk encodings. TLC enumerates every vector of Wire.tla (message type x value class per field);
the real codecs are run on each; TLC (WireObs) evaluates the C18 predicates, with EncLen computed by the spec.
  python3 bin/check_wire.py C18 --tier quick|thorough [--replay vec.json]"""
import argparse, json, os, re, shutil, subprocess, sys, time, traceback
sys.path.insert(0, os.path.dirname(os.path.abspath(__file__)))
import vlib
from vlib import log, HarnessError


def run(pid, tier, seed, work, replay, t0):
    h = vlib.build_harness(os.path.join(work, "bin"))
    cov = {"model_runs": []}
    if replay:
        vecs = [json.load(open(replay))]
        ngen = 0
    else:
        r = vlib.tlc(os.path.join(work, "gen"), "WireGen", "INIT Init\nNEXT Next\nINVARIANT Dump\n", args=["-workers", "1"], timeout=600, name="WireGen")
        if r["error"]:
            raise HarnessError("WireGen failed: " + r["error"][:500])
        vecs = [json.loads(m.group(1).replace('\\"', '"')) for m in re.finditer(r'<<"VEC", "(.*)">>', r["out"])]
        ngen = r["distinct"]
        cov["model_runs"].append({"config": "Wire.tla: all vectors (initial states)", "distinct_states": r["distinct"], "wall_s": round(r["wall"], 1)})
        log("M Wire: %d vectors enumerated by TLC in %.0fs" % (len(vecs), r["wall"]))
    shards = min(vlib.NCPU, max(1, len(vecs) // 50 + 1))
    procs, outs = [], []
    tmp = os.path.join(work, "valdirs")
    os.makedirs(tmp, exist_ok=True)
    for s in range(shards):
        vf = os.path.join(work, "vecs-%d.ndjson" % s)
        of = os.path.join(work, "wire-%d.ndjson" % s)
        with open(vf, "w") as f:
            for v in vecs[s::shards]:
                f.write(json.dumps(v) + "\n")
        e = dict(os.environ, VERIF_VECS=vf, VERIF_OUT=of, VERIF_TMP=tmp)
        procs.append(subprocess.Popen([h["raft"], "-test.run", "^TestVerifWire$", "-test.timeout", "900s"], cwd=work, env=e, stdout=subprocess.PIPE, stderr=subprocess.STDOUT, text=True))
        outs.append(of)
    for p in procs:
        o, _ = p.communicate(timeout=1000)
        if p.returncode != 0:
            raise HarnessError("wire harness failed (rc=%d): %s" % (p.returncode, o[-1500:]))
    # ids must be unique across shards
    rec = os.path.join(work, "wire.ndjson")
    reports = []
    with open(rec, "w") as w:
        k = 0
        for of in outs:
            for line in open(of):
                k += 1
                r_ = json.loads(line)
                r_["id"] = k
                reports.append(r_)
                w.write(json.dumps(r_) + "\n")
    r = vlib.tlc(os.path.join(work, "obs"), "WireObs", "INIT OInit\nNEXT ONext\nINVARIANT Report\n", args=["-workers", "1"], timeout=900, env={"VERIF_TRACE": rec}, name="WireObs")
    m = re.search(r'<<"WIRE-RESULT", "(.*)", (\d+)>>', r["out"])
    if not m or int(m.group(2)) != len(reports):
        raise HarnessError("WireObs did not complete: " + (r["error"] or r["out"][-1000:])[:1200])
    bad = json.loads(m.group(1).replace('\\"', '"'))
    byid = {x["id"]: x for x in reports}
    known = vlib.load_known()
    nviol = 0
    os.makedirs(os.path.join(vlib.VERIF, "out", "replay"), exist_ok=True)
    seen = set()
    for pred, rid in sorted(bad, key=lambda x: x[1]):
        rp = byid[rid]
        key = (pred, rp["typ"], tuple(c for c in rp["vec"]))
        cls = (pred, rp["typ"])
        kf = [k for k in known if k.get("status") == "known" and k.get("property") == pid and k.get("pred") == pred and k.get("witness", {}).get("typ") == rp["typ"]
              and all(rp["vec"][int(i)] in v for i, v in k.get("witness", {}).get("classes", {}).items())]
        if kf:
            if kf[0]["id"] not in seen:
                log("KNOWN-FINDING: property=%s %s" % (pid, kf[0]["what"]))
                seen.add(kf[0]["id"])
            continue
        nviol += 1
        if nviol <= 15:
            path = os.path.join(vlib.VERIF, "out", "replay", "%s-%s-%d.json" % (pid, rp["typ"], rid))
            json.dump({"typ": rp["typ"], "vec": rp["vec"]}, open(path, "w"))
            log("VIOLATION property=%s replay=%s" % (pid, path))
            log("  %s failed for %s%s: %s" % (pred, rp["typ"], json.dumps(rp["vec"]), rp.get("note", "")[:200]))
    cov.update({"evaluations": len(reports), "distinct_nontrivial": len({(x["typ"], tuple(x["vec"])) for x in reports}),
                "rule": "vectors = all initial states of Wire.tla (message/record type x value class per field: 0, 1, 2^31, 2^63-1, 2^63, 2^64-1; empty/short/70000-byte strings; 0/1/3 nodes; every entry type and one unknown; every response/error kind); each is one test of the real codec; exhaustive over the class product",
                "samples": [{"typ": x["typ"], "vec": x["vec"], "produced": x["produced"], "consumed": x["consumed"]} for x in reports[:3]],
                "exhaustive": True, "states": ngen, "vectors": len(reports)})
    assumptions = ["value fidelity inside a class is checked on one representative per class", "prefix truncation sampled for encodings longer than 136 bytes (all of the first 96 and last 40 positions, every 1777th in between)"]
    vlib.write_evidence(pid, tier, seed, "exploration", cov, assumptions, time.time() - t0, nviol)
    log("property %s tier %s: %d vectors through the real codecs, %d violations, %.0fs" % (pid, tier, len(reports), nviol, time.time() - t0))
    return 1 if nviol else 0


def main():
    ap = argparse.ArgumentParser()
    ap.add_argument("pid")
    ap.add_argument("--tier", default="quick")
    ap.add_argument("--replay")
    a = ap.parse_args()
    t0 = time.time()
    work = vlib.scratch(a.pid)
    try:
        return run(a.pid, a.tier, int(os.environ.get("VERIF_SEED", "1")), work, a.replay, t0)
    except HarnessError as e:
        log("MACHINERY-ERROR property=%s %s" % (a.pid, e)); return 2
    except Exception:
        log("MACHINERY-ERROR property=%s unexpected:\n%s" % (a.pid, traceback.format_exc())); return 2
    finally:
        shutil.rmtree(work, ignore_errors=True)


if __name__ == "__main__":
    sys.exit(main())
