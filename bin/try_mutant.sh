#!/bin/bash
# usage: try_mutant.sh <seeded-id> <tier> <check-id>...
# Runs checks against a scratch worktree of /repo with seeded/<id>/patch.diff applied (VERIF_REPO); /repo itself is untouched.
set -u
id=$1; tier=$2; shift 2
cd /verif
W=/tmp/mut-$id
git -C /repo worktree remove --force $W >/dev/null 2>&1
git -C /repo worktree add -f --detach $W HEAD >/dev/null 2>&1 || { echo "$id worktree failed"; exit 2; }
trap 'git -C /repo worktree remove --force $W >/dev/null 2>&1; rm -rf /tmp/mutev-$id' EXIT
git -C $W apply /verif/seeded/$id/patch.diff || { echo "$id: patch does not apply"; exit 2; }
mkdir -p out/mut
for c in "$@"; do
  case $c in
    C13|C14) cmd="python3 bin/check_log.py $c --tier $tier";;
    C18) cmd="python3 bin/check_wire.py $c --tier $tier";;
    C20) cmd="python3 bin/check_ident.py $c --tier $tier";;
    *) cmd="python3 bin/check.py $c --tier $tier";;
  esac
  s=$(date +%s)
  VERIF_REPO=$W VERIF_EVIDENCE_DIR=/tmp/mutev-$id VERIF_SEED=${VERIF_SEED:-1} $cmd > out/mut/$id-$c.log 2>&1; rc=$?
  python3 - "$id" "$c" "$tier" "$rc" out/mut/$id-$c.log >> seeded/results.jsonl <<'PY'
import sys, json, re, subprocess
id, c, tier, rc, logf = sys.argv[1:6]
txt = open(logf).read()
preds = sorted(set(re.findall(r"predicate (\S+) failed", txt)))
others = re.findall(r"other properties' predicates failed in these runs.*?: (.*)", txt)
print(json.dumps({"id": id, "check": c, "tier": tier, "rc": int(rc), "violations": len(re.findall(r"^VIOLATION", txt, re.M)),
                  "drifts": len(re.findall(r"^DRIFT", txt, re.M)), "predicates": preds, "other_predicates": others[0].split(", ") if others else [],
                  "skip_m": bool(__import__("os").environ.get("VERIF_SKIP_M")),
                  "repo_head": subprocess.run(["git", "-C", "/repo", "log", "--format=%h", "-1"], stdout=subprocess.PIPE, text=True).stdout.strip()}))
PY
  echo "MUTANT $id check=$c rc=$rc $(( $(date +%s) - s ))s viol=$(grep -c '^VIOLATION' out/mut/$id-$c.log) drift=$(grep -c '^DRIFT' out/mut/$id-$c.log) :: $(grep -m1 'predicate' out/mut/$id-$c.log | cut -c1-200)"
done
