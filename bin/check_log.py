#!/usr/bin/env python3
"""C13 / C14: the segmented log against SegLog.tla.

  python3 bin/check_log.py C13|C14 --tier quick|thorough [--replay ops.json]

(M) TLC exhausts SegLog.tla for short operation sequences (invariants of the abstract sequence / segmentation);
(G) TLC -simulate generates operation sequences; (code) the harness in package log replays them on a real
directory with crash images at every hook point; (T/O) TLC (SegLogTrace) compares every observation with the
specification and evaluates RecoverOK on every crash image.
"""
import argparse
import json
import os
import re
import shutil
import subprocess
import sys
import time
import traceback

sys.path.insert(0, os.path.dirname(os.path.abspath(__file__)))
import vlib
from vlib import log, HarnessError

SIZES = "{0, 10, 400, 1000, 1001}"
TIERS = {
    "quick": {"mc_ops": 5, "sim_num": 400, "sim_ops": 14, "mc_timeout": 600},
    "thorough": {"mc_ops": 7, "sim_num": 6000, "sim_ops": 22, "mc_timeout": 2400},
}
INVS = ["Inv_Shape", "Inv_RemoveLTE", "Inv_Views", "Inv_Fits"]

# hand-written sequences aimed at the clauses of C13/C14 (all are also behaviours of SegLog.tla: validated by T)
def directed():
    seqs = []
    a = lambda k, sz: {"op": "append", "size": sz, "id": k}
    seqs.append({"name": "d-rollover-commit", "ops": [a(1, 400), a(2, 400), a(3, 400), {"op": "commit"}, a(4, 400), {"op": "crashReopen"}, a(5, 10), {"op": "reopen"}]})
    seqs.append({"name": "d-commitN-boundary", "ops": [a(1, 400), a(2, 400), {"op": "commit"}, a(3, 400), {"op": "commitN", "i": 3}, {"op": "crashReopen"}, a(4, 400), a(5, 400), {"op": "commitN", "i": 4}, {"op": "crashReopen"}]})
    seqs.append({"name": "d-first-entry", "ops": [a(1, 10), {"op": "commit"}, {"op": "crashReopen"}, a(2, 1000), {"op": "commitN", "i": 2}, {"op": "crashReopen"}]})
    seqs.append({"name": "d-removeGTE-reappend", "ops": [a(1, 10), a(2, 10), a(3, 10), a(4, 10), {"op": "commit"}, {"op": "removeGTE", "i": 3}, a(5, 10), {"op": "commit"}, {"op": "reopen"}, a(6, 10), {"op": "crashReopen"}]})
    seqs.append({"name": "d-removeGTE-across", "ops": [a(1, 400), a(2, 400), a(3, 400), a(4, 400), a(5, 400), {"op": "commit"}, {"op": "removeGTE", "i": 3}, a(6, 400), {"op": "crashReopen"}, {"op": "removeGTE", "i": 1}, a(7, 10), {"op": "commit"}, {"op": "reopen"}]})
    seqs.append({"name": "d-removeLTE-views", "ops": [a(1, 400), a(2, 400), a(3, 400), a(4, 400), a(5, 400), {"op": "view", "p": 1, "l": 4}, a(6, 400), a(7, 10), {"op": "removeLTE", "i": 3}, {"op": "removeLTE", "i": 4}, {"op": "commit"}, {"op": "crashReopen"}, {"op": "removeLTE", "i": 9}]})
    seqs.append({"name": "d-big-entries", "ops": [a(1, 1000), a(2, 1001), a(3, 0), a(4, 1000), {"op": "view", "p": 0, "l": 4}, a(5, 400), {"op": "commit"}, {"op": "reopen"}, a(6, 1001), {"op": "crashReopen"}]})
    seqs.append({"name": "d-reset", "ops": [a(1, 400), a(2, 400), a(3, 400), {"op": "reset", "i": 7}, a(4, 10), {"op": "commit"}, {"op": "crashReopen"}, {"op": "reset", "i": 3}, {"op": "reopen"}]})
    seqs.append({"name": "d-exceeds", "ops": [a(1, 1001), a(2, 10), a(3, 1001), {"op": "commit"}, {"op": "removeGTE", "i": 2}, a(4, 10), {"op": "reopen"}]})
    return seqs


def mk_cfg(ops, extra, views=2):
    return "\n".join(["CONSTANTS", " SegSize0 = 1024", " Sizes = %s" % SIZES, " MaxOps = %d" % ops, " MaxViews = %d" % views] + extra) + "\n"


def run(pid, tier, seed, work, replay, t0):
    T = TIERS[tier]
    h = vlib.build_harness(os.path.join(work, "bin"))
    cov = {"states": 0, "transitions": 0, "traces_validated_against_impl": 0, "samples": [], "model_runs": []}
    seqs = []
    if replay:
        seqs = [json.load(open(replay))]
    else:
        cfg = mk_cfg(T["mc_ops"], ["INIT Init", "NEXT Next", "VIEW lview"] + ["INVARIANT " + i for i in INVS], views=1)
        r = vlib.tlc(os.path.join(work, "mc"), "SegLog", cfg, args=["-workers", str(vlib.NCPU)], timeout=T["mc_timeout"], name="SegLog")
        if r["error"] or r["timed_out"]:
            raise HarnessError("TLC failed on SegLog: " + (r["error"] or "timed out")[:500])
        if r["violated"]:
            raise HarnessError("SegLog.tla violates its own invariant %s: the specification is wrong" % r["violated"])
        cov["states"], cov["transitions"] = r["distinct"], r["generated"]
        cov["model_runs"].append({"config": "SegLog exhaustive", "max_ops": T["mc_ops"], "sizes": SIZES, "invariants": INVS,
                                  "distinct_states": r["distinct"], "generated": r["generated"], "wall_s": round(r["wall"], 1)})
        cov["exhaustive"] = True
        log("M SegLog: %d distinct / %d generated in %.0fs" % (r["distinct"], r["generated"], r["wall"]))
        cfg = mk_cfg(T["sim_ops"], ["INIT Init", "NEXT Next", "INVARIANT Dump"])
        r = vlib.tlc(os.path.join(work, "sim"), "SegLogSim", cfg, args=["-workers", "1", "-simulate", "num=%d" % T["sim_num"], "-depth", str(T["sim_ops"] + 2), "-seed", str(seed)],
                     timeout=600, name="SegLogSim")
        if r["error"]:
            raise HarnessError("TLC simulate failed: " + r["error"][:500])
        k = 0
        for m in re.finditer(r'<<"OPS", "(.*)">>', r["out"]):
            try:
                ops = json.loads(m.group(1).replace('\\"', '"'))
            except Exception:
                continue
            seqs.append({"name": "sim-%d-%d" % (seed, k), "ops": ops})
            k += 1
            if k >= T["sim_num"]:
                break
        log("G simulate: %d operation sequences of %d ops" % (k, T["sim_ops"]))
        seqs += directed()
    # replay on the real log
    shards = min(vlib.NCPU, max(1, len(seqs)))
    procs, outs = [], []
    tmp = os.path.join(work, "logdirs")
    os.makedirs(tmp, exist_ok=True)
    for s in range(shards):
        part = seqs[s::shards]
        sf = os.path.join(work, "ops-%d.ndjson" % s)
        of = os.path.join(work, "logrec-%d.ndjson" % s)
        with open(sf, "w") as f:
            for q in part:
                f.write(json.dumps(q) + "\n")
        e = dict(os.environ, VERIF_LOGOPS=sf, VERIF_OUT=of, VERIF_TMP=tmp)
        procs.append(subprocess.Popen([h["log"], "-test.run", "^TestVerifLog$", "-test.timeout", "900s"], cwd=work, env=e,
                                      stdout=subprocess.PIPE, stderr=subprocess.STDOUT, text=True))
        outs.append(of)
    for p in procs:
        o, _ = p.communicate(timeout=1000)
        if p.returncode != 0:
            raise HarnessError("log harness failed (rc=%d): %s" % (p.returncode, o[-2000:]))
    shutil.rmtree(tmp, ignore_errors=True)
    rec = vlib.concat(outs, os.path.join(work, "logrec.ndjson"))
    nrec = vlib.count_lines(rec)
    nimg = 0
    with open(rec) as f:
        for line in f:
            nimg += line.count('"point"')
    # trace validation / recovery predicate
    cfg = mk_cfg(100000, ["INIT TInit", "NEXT TNext", "INVARIANT Report"], views=100000)
    r = vlib.tlc(os.path.join(work, "tv"), "SegLogTrace", cfg, args=["-workers", "1"], timeout=1800, env={"VERIF_TRACE": rec}, name="SegLogTrace")
    m = re.search(r'<<"SEGLOG-RESULT", "(.*)", (\d+)>>', r["out"])
    if not m:
        raise HarnessError("SegLogTrace did not complete: " + (r["error"] or r["out"][-1500:])[:1500])
    viol = json.loads(m.group(1).replace('\\"', '"'))
    if int(m.group(2)) != nrec:
        raise HarnessError("SegLogTrace consumed %s of %d records" % (m.group(2), nrec))
    mine_key = "C13_AbstractSequence" if pid == "C13" else "C14_RecoverOK"
    mine = [v for v in viol if v[0] == mine_key]
    drifts = [v for v in viol if v[0] == "DRIFT"]
    bad_runs = {v[1] for v in viol if v[0] in ("C13_AbstractSequence", "DRIFT")}
    cov["traces_validated_against_impl"] = len(seqs) - len(bad_runs)
    cov["evaluations"] = len(seqs)
    cov["distinct_nontrivial"] = len({json.dumps(q["ops"]) for q in seqs if len(q["ops"]) >= 3})
    cov["records_checked"] = nrec
    cov["crash_images_checked"] = nimg
    cov["rule"] = "operation sequences = TLC -simulate behaviours of SegLog.tla + directed sequences; each replayed on a real log dir (1 KiB segments); crash image at every hook point x {process kill, power loss with per-file flushed-or-current content}; distinct = distinct op sequences with >= 3 ops"
    cov["samples"] = [q for q in seqs[:1]] + [q for q in seqs if q["name"].startswith("d-")][:1]
    for d in drifts[:10]:
        log("DRIFT property=%s segmentation detail differs from SegLog.tla at %s op %s (seq %s)" % (pid, d[1], d[3], d[2]))
    known = vlib.load_known()
    nviol = 0
    os.makedirs(os.path.join(vlib.VERIF, "out", "replay"), exist_ok=True)
    byname = {q["name"]: q for q in seqs}
    seen = set()
    for v in mine:
        key = (v[1],)
        if key in seen:
            continue
        seen.add(key)
        kf = [k for k in known if k.get("status") == "known" and k.get("property") == pid and k.get("witness", {}).get("point") in (None, v[3])]
        if kf:
            log("KNOWN-FINDING: property=%s %s" % (pid, kf[0].get("what")))
            continue
        nviol += 1
        path = os.path.join(vlib.VERIF, "out", "replay", "%s-%s.json" % (pid, v[1]))
        json.dump(byname[v[1]], open(path, "w"))
        log("VIOLATION property=%s replay=%s" % (pid, path))
        log("  %s failed at record %s of %s: op/point %s %s" % (v[0], v[2], v[1], v[3], v[4]))
    level = "model_checking" if pid == "C13" else "fault_enumeration"
    if level == "fault_enumeration":
        cov["evaluations"] = nimg
        cov["distinct_nontrivial"] = nimg
        cov["rule"] += "; for C14: evaluations = crash images reopened with the real log.Open and judged by RecoverOK"
    assumptions = ["segment size 1024, payload sizes " + SIZES, "power-loss model at file granularity (segment files are smaller than a page); directory operations durable once completed",
                   "SegLog.tla is the reference for the abstract sequence; segmentation detail differences are DRIFT, not violations"]
    vlib.write_evidence(pid, tier, seed, level, cov, assumptions, time.time() - t0, nviol)
    log("property %s tier %s: %d sequences, %d records, %d crash images, %d violations, %d drifts, %.0fs" % (pid, tier, len(seqs), nrec, nimg, nviol, len(drifts), time.time() - t0))
    return 1 if nviol else 0


def main():
    ap = argparse.ArgumentParser()
    ap.add_argument("pid")
    ap.add_argument("--tier", default=os.environ.get("VERIF_TIER", "quick"))
    ap.add_argument("--replay")
    a = ap.parse_args()
    seed = int(os.environ.get("VERIF_SEED", "1"))
    t0 = time.time()
    work = vlib.scratch(a.pid)
    try:
        return run(a.pid, a.tier, seed, work, a.replay, t0)
    except HarnessError as e:
        log("MACHINERY-ERROR property=%s %s" % (a.pid, e))
        return 2
    except Exception:
        log("MACHINERY-ERROR property=%s unexpected:\n%s" % (a.pid, traceback.format_exc()))
        return 2
    finally:
        shutil.rmtree(work, ignore_errors=True)


if __name__ == "__main__":
    sys.exit(main())
