#!/usr/bin/env python3
"""C20: identity isolation and storage exclusivity against Identity.tla.
  python3 bin/check_ident.py C20 --tier quick|thorough [--replay ops.json]"""
import argparse, json, os, re, shutil, subprocess, sys, time, traceback
sys.path.insert(0, os.path.dirname(os.path.abspath(__file__)))
import vlib
from vlib import log, HarnessError

CONSTS = ['Ident = {"c1n1", "c1n2", "c2n1"}', 'Addr = {"a1", "a2"}', 'Dir = {"d1", "d2"}']
TIERS = {"quick": {"mc_ops": 6, "sim_num": 250, "sim_ops": 14}, "thorough": {"mc_ops": 8, "sim_num": 3000, "sim_ops": 20}}
INVS = ["C20_Isolation", "C20_OneServer", "C20_IdentityStable"]


def cfg(ops, extra):
    return "\n".join(["CONSTANTS"] + [" " + c for c in CONSTS] + [" MaxOps = %d" % ops] + extra) + "\n"


def directed():
    # address re-use by a foreign cluster after the intended peer went away (pooled / re-dialled connections)
    r0 = {"c1n1": "a1", "c1n2": "a2", "c2n1": "a2"}
    I = lambda d, i: {"op": "setIdentity", "dir": d, "id": i}
    S = lambda d, a: {"op": "serve", "dir": d, "addr": a}
    X = lambda a: {"op": "shutdown", "addr": a}
    R = lambda t: {"op": "rpc", "intent": t}
    seqs = [
        {"name": "d-addr-reuse", "ops": [{"op": "init", "resolve": r0}, I("d1", "c1n1"), I("d2", "c2n1"), S("d1", "a1"), R("c1n1"), R("c1n1"), X("a1"), S("d2", "a1"), R("c1n1"), R("c1n1"), R("c1n1"), X("a1"), S("d1", "a1"), R("c1n1")]},
        {"name": "d-lock", "ops": [{"op": "init", "resolve": r0}, I("d1", "c1n1"), S("d1", "a1"), S("d1", "a2"), I("d1", "c1n2"), X("a1"), I("d1", "c1n2"), I("d1", "c1n1"), S("d1", "a2"), S("d2", "a1")]},
        {"name": "d-resolve-mixup", "ops": [{"op": "init", "resolve": r0}, I("d1", "c1n1"), I("d2", "c1n2"), S("d1", "a1"), S("d2", "a2"), R("c1n2"), {"op": "resolve", "intent": "c1n2", "addr": "a1"}, R("c1n2"), X("a2"), R("c1n2"), R("c1n2"), R("c2n1")]},
    ]
    return seqs


def run(pid, tier, seed, work, replay, t0):
    T = TIERS[tier]
    h = vlib.build_harness(os.path.join(work, "bin"))
    cov = {"states": 0, "transitions": 0, "traces_validated_against_impl": 0, "samples": [], "model_runs": []}
    seqs = []
    if replay:
        seqs = [json.load(open(replay))]
    else:
        r = vlib.tlc(os.path.join(work, "mc"), "Identity", cfg(T["mc_ops"], ["INIT Init", "NEXT Next", "VIEW iview"] + ["INVARIANT " + i for i in INVS]),
                     args=["-workers", str(vlib.NCPU)], timeout=1800, name="Identity")
        if r["error"] or r["timed_out"] or r["violated"]:
            raise HarnessError("TLC on Identity.tla: " + str(r["error"] or r["violated"] or "timed out")[:400])
        cov["states"], cov["transitions"] = r["distinct"], r["generated"]
        cov["model_runs"].append({"config": "Identity exhaustive", "max_ops": T["mc_ops"], "constants": CONSTS, "invariants": INVS, "distinct_states": r["distinct"], "generated": r["generated"], "wall_s": round(r["wall"], 1)})
        cov["exhaustive"] = True
        log("M Identity: %d distinct / %d generated in %.0fs" % (r["distinct"], r["generated"], r["wall"]))
        r = vlib.tlc(os.path.join(work, "sim"), "IdentitySim", cfg(T["sim_ops"], ["INIT Init", "NEXT Next", "INVARIANT Dump"]),
                     args=["-workers", "1", "-simulate", "num=%d" % T["sim_num"], "-depth", str(T["sim_ops"] + 2), "-seed", str(seed)], timeout=600, name="IdentitySim")
        if r["error"]:
            raise HarnessError("simulate failed: " + r["error"][:400])
        k = 0
        for m in re.finditer(r'<<"OPS", "(.*)">>', r["out"]):
            try:
                ops = json.loads(m.group(1).replace('\\"', '"'))
            except Exception:
                continue
            seqs.append({"name": "sim-%d-%d" % (seed, k), "ops": ops})
            k += 1
            if k >= T["sim_num"]:
                break
        log("G simulate: %d operation sequences" % k)
        seqs += directed()
    shards = min(vlib.NCPU, max(1, len(seqs)))
    procs, outs = [], []
    tmp = os.path.join(work, "dirs")
    os.makedirs(tmp, exist_ok=True)
    for s in range(shards):
        sf = os.path.join(work, "idops-%d.ndjson" % s)
        of = os.path.join(work, "idrec-%d.ndjson" % s)
        with open(sf, "w") as f:
            for q in seqs[s::shards]:
                f.write(json.dumps(q) + "\n")
        e = dict(os.environ, VERIF_IDOPS=sf, VERIF_OUT=of, VERIF_TMP=tmp)
        procs.append(subprocess.Popen([h["raft"], "-test.run", "^TestVerifIdent$", "-test.timeout", "900s"], cwd=work, env=e, stdout=subprocess.PIPE, stderr=subprocess.STDOUT, text=True))
        outs.append(of)
    for p in procs:
        o, _ = p.communicate(timeout=1000)
        if p.returncode != 0:
            raise HarnessError("identity harness failed (rc=%d): %s" % (p.returncode, o[-1500:]))
    shutil.rmtree(tmp, ignore_errors=True)
    rec = vlib.concat(outs, os.path.join(work, "idrec.ndjson"))
    nrec = vlib.count_lines(rec)
    r = vlib.tlc(os.path.join(work, "tv"), "IdentityTrace", cfg(100000, ["INIT TInit", "NEXT TNext", "INVARIANT Report"]), args=["-workers", "1"], timeout=900, env={"VERIF_TRACE": rec}, name="IdentityTrace")
    m = re.search(r'<<"IDENT-RESULT", "(.*)", (\d+)>>', r["out"])
    if not m or int(m.group(2)) != nrec:
        raise HarnessError("IdentityTrace did not complete: " + (r["error"] or r["out"][-1000:])[:1200])
    viol = json.loads(m.group(1).replace('\\"', '"'))
    byname = {q["name"]: q for q in seqs}
    bad_runs = {v[1] for v in viol}
    cov["traces_validated_against_impl"] = len(seqs) - len(bad_runs)
    cov["evaluations"] = len(seqs)
    cov["distinct_nontrivial"] = len({json.dumps(q["ops"]) for q in seqs})
    cov["records_checked"] = nrec
    cov["rule"] = "operation sequences (SetIdentity / Serve / Shutdown / resolver change / rpc with an intended identity) = TLC -simulate behaviours of Identity.tla + directed address re-use sequences, executed on real nodes (Serve on fnet) with the real connPool as dialer"
    cov["samples"] = seqs[:1] + seqs[-1:]
    nviol = 0
    os.makedirs(os.path.join(vlib.VERIF, "out", "replay"), exist_ok=True)
    seen = set()
    for v in viol:
        if v[1] in seen:
            continue
        seen.add(v[1])
        nviol += 1
        path = os.path.join(vlib.VERIF, "out", "replay", "%s-%s.json" % (pid, v[1]))
        json.dump(byname[v[1]], open(path, "w"))
        log("VIOLATION property=%s replay=%s" % (pid, path))
        log("  %s at record %s of %s" % (v[0], v[2], v[1]))
    vlib.write_evidence(pid, tier, seed, "model_checking", cov, ["3 identities (2 clusters), 2 addresses, 2 storage directories", "one dialer; the listener side is a real Serve() on the in-memory fnet network",
                                                                 "C20_Outcome (an operation's real result differs from Identity.tla) is reported as a violation because the outcomes ARE the exclusivity / handshake guarantees"], time.time() - t0, nviol)
    log("property %s tier %s: %d sequences, %d records, %d violations, %.0fs" % (pid, tier, len(seqs), nrec, nviol, time.time() - t0))
    return 1 if nviol else 0


def main():
    ap = argparse.ArgumentParser()
    ap.add_argument("pid"); ap.add_argument("--tier", default="quick"); ap.add_argument("--replay")
    a = ap.parse_args()
    t0 = time.time(); work = vlib.scratch(a.pid)
    try:
        return run(a.pid, a.tier, int(os.environ.get("VERIF_SEED", "1")), work, a.replay, t0)
    except HarnessError as e:
        log("MACHINERY-ERROR property=%s %s" % (a.pid, e)); return 2
    except Exception:
        log("MACHINERY-ERROR property=%s unexpected:\n%s" % (a.pid, traceback.format_exc())); return 2
    finally:
        shutil.rmtree(work, ignore_errors=True)


if __name__ == "__main__":
    sys.exit(main())
