#!/usr/bin/env python3
"""Shared machinery for the /verif checks: TLC runs, schedule export, harness runs,
observation checking, evidence files. Standard library only."""
import glob
import hashlib
import concurrent.futures
import json
import os
import re
import shutil
import subprocess
import sys
import tempfile
import time

VERIF = os.path.dirname(os.path.dirname(os.path.abspath(__file__)))
REPO = os.environ.get("VERIF_REPO", "/repo")
TLA = os.path.join(VERIF, "tla")
NCPU = os.cpu_count() or 4


class HarnessError(Exception):
    """machinery failure: never a verdict (exit 2)"""


def log(*a):
    print(*a, flush=True)


# ---------------------------------------------------------------- scratch
def scratch(prefix="v"):
    base = os.environ.get("VERIF_TMP") or os.path.join(VERIF, "out", "tmp")
    os.makedirs(base, exist_ok=True)
    return tempfile.mkdtemp(prefix=prefix + "-", dir=base)


# ---------------------------------------------------------------- harness build
def build_harness(outdir):
    t0 = time.time()
    p = subprocess.run([os.path.join(VERIF, "bin", "build_harness.sh"), outdir],
                       stdout=subprocess.PIPE, stderr=subprocess.STDOUT, text=True)
    if p.returncode != 0:
        raise HarnessError("harness build failed against the current tree:\n" + p.stdout[-4000:])
    return {"raft": os.path.join(outdir, "raft.test"), "log": os.path.join(outdir, "log.test"), "build_s": time.time() - t0}


# ---------------------------------------------------------------- model constants
BASE_CONSTANTS = {
    "Node": "{n1, n2, n3}", "InitVoters": "{n1, n2, n3}", "InitNonvoters": "{}", "None": "None",
    "MaxTerm": 3, "MaxLog": 3, "MaxCmds": 0, "MaxCrash": 0, "MaxInflight": 1, "MaxAppend": 64, "MaxElections": 3,
    "EagerLdr": "TRUE", "EagerPoll": "TRUE", "EagerFsm": "TRUE", "Orphans": "FALSE", "KeepHist": "FALSE", "Reduce": "TRUE",
    "G_LeaderKnown": "TRUE", "G_OneVote": "TRUE", "G_UpToDate": "TRUE", "G_PersistVote": "TRUE",
    "G_VoteQuorum": "TRUE", "G_StaleTermVote": "TRUE", "G_StepDownOnTerm": "TRUE",
    "G_ConsistencyCheck": "TRUE", "G_TruncateOnConflict": "TRUE", "G_FollowerOwnTerm": "TRUE",
    "G_LeaderOwnTerm": "TRUE", "G_MajorityOfVoters": "TRUE", "G_FlushBeforeAck": "TRUE",
    "G_LeaderFlush": "TRUE", "G_StaleTermAppend": "TRUE",
    "G_ConfigCommittedFirst": "TRUE", "G_OwnTermBeforeConfig": "TRUE", "G_PromoteAfterRound": "TRUE",
    "G_NonVoterNoElection": "TRUE", "G_StepDownWhenDemoted": "TRUE",
    "G_XferCaughtUp": "TRUE", "G_XferBlocksEntries": "TRUE", "G_XferSuccessOnHigherTerm": "TRUE", "G_CommitMonotone": "TRUE", "G_ReadAfterCommit": "TRUE",
    "MaxRoundOrd": 3, "SegSize": 1024, "UpdBytes": 300, "MaxSnaps": 0, "FixD4": "TRUE", "FixD5": "TRUE", "FixD11": "TRUE", "FixD3": "TRUE", "FixD13": "TRUE", "RoundFastSet": "{TRUE}", "MaxCfgReqs": 0, "EdAddPromote": "{}", "EdAddNonvoter": "{}", "EdPromote": "{}", "EdDemote": "{}", "EdRemove": "{}", "EdForceRemove": "{}",
    "FixD1": "TRUE", "FixD2": "TRUE", "FixD19": "TRUE", "FixD23": "TRUE", "FixD22": "TRUE", "FixD20": "TRUE", "FixD14": "TRUE", "MaxXfers": 0, "MaxXferTries": 2, "XferTargets": "{None}", "ClientOps": '{"update"}', "NetFaults": "FALSE", "TrackClients": "FALSE",
}


def make_cfg(overrides, invariants=(), symmetry=True, view=True, extra_lines=()):
    c = dict(BASE_CONSTANTS)
    c.update(overrides)
    lines = ["CONSTANTS"]
    for k, v in c.items():
        lines.append(" %s = %s" % (k, v))
    lines += ["INIT Init", "NEXT Next"]
    if view:
        lines.append("VIEW view")
    if symmetry and c.get("Orphans") != "TRUE":   # orph ordering uses CHOOSE: no symmetry reduction then
        lines.append("SYMMETRY Symm")
    for inv in invariants:
        lines.append("INVARIANT " + inv)
    lines += list(extra_lines)
    return "\n".join(lines) + "\n"


# ---------------------------------------------------------------- TLC
JAVA_CP = "/opt/veriftools/tla/tla2tools.jar:/opt/veriftools/tla/CommunityModules-deps.jar"


def tlc(workdir, module, cfgtext, args=(), timeout=600, env=None, heap=None, name=None):
    """Runs TLC in a scratch copy of the spec directory. Returns dict(out, rc, generated, distinct, violated, wall)."""
    name = name or module
    os.makedirs(workdir, exist_ok=True)
    for f in glob.glob(os.path.join(TLA, "*.tla")):
        shutil.copy(f, workdir)
    cfg = os.path.join(workdir, name + ".cfg")
    with open(cfg, "w") as f:
        f.write(cfgtext)
    meta = tempfile.mkdtemp(prefix="meta-", dir=workdir)
    cmd = ["java", "-XX:+UseParallelGC", "-Xss64m", "-Djava.io.tmpdir=" + meta]   # (TLC leaves tlc-* directories in java.io.tmpdir)
    if heap:
        cmd.append("-Xmx" + heap)
    cmd += ["-cp", JAVA_CP, "tlc2.TLC", "-deadlock", "-metadir", meta, "-config", cfg] + list(args) + [module + ".tla"]
    e = dict(os.environ)
    if env:
        e.update(env)
    t0 = time.time()
    try:
        p = subprocess.run(cmd, cwd=workdir, stdout=subprocess.PIPE, stderr=subprocess.STDOUT, text=True, timeout=timeout, env=e)
        out, rc, timed_out = p.stdout, p.returncode, False
    except subprocess.TimeoutExpired as ex:
        out = ex.stdout.decode() if isinstance(ex.stdout, bytes) else (ex.stdout or "")
        rc, timed_out = -9, True
        subprocess.run(["pkill", "-f", meta], stdout=subprocess.DEVNULL, stderr=subprocess.DEVNULL)
    wall = time.time() - t0
    shutil.rmtree(meta, ignore_errors=True)
    res = {"out": out, "rc": rc, "wall": wall, "timed_out": timed_out, "generated": 0, "distinct": 0, "violated": None, "error": None}
    m = re.findall(r"(\d+) states generated, (\d+) distinct states found", out)
    if m:
        res["generated"], res["distinct"] = int(m[-1][0]), int(m[-1][1])
    else:
        # interrupted run: take the last progress report
        m = re.findall(r"([\d,]+) states generated \([^)]*\), ([\d,]+) distinct states found", out)
        if m:
            res["generated"], res["distinct"] = int(m[-1][0].replace(",", "")), int(m[-1][1].replace(",", ""))
    m = re.search(r"Error: Invariant (\S+) is violated", out)
    if m:
        res["violated"] = m.group(1)
    elif re.search(r"^Error:", out, re.M) and "is violated" not in out:
        em = re.search(r"^Error:.*(?:\n.*){0,12}", out, re.M)
        res["error"] = em.group(0) if em else "error"
    return res


def node_num(v):
    if isinstance(v, int):
        return v
    if isinstance(v, str) and v.startswith("n") and v[1:].isdigit():
        return int(v[1:])
    if v == "None":
        return 0
    raise HarnessError("bad node value %r" % (v,))


def ev_to_step(ev):
    """spec event -> harness stimulus (never an expected result)"""
    k = ev.get("kind")
    N = node_num
    if k == "init":
        return None
    if k == "timeout":
        return {"k": "timeout", "n": N(ev["n"])}
    if k in ("voteReq", "timeoutNowReq"):
        st = {"k": k, "from": N(ev["from"]), "to": N(ev["n"]), "term": ev["term"]}
        if ev.get("dropped"):
            st["fail"] = True
        return st
    if k in ("voteResp", "timeoutNowResp"):
        return {"k": k, "from": N(ev["from"]), "to": N(ev["n"]), "term": ev["term"]}
    if k == "takeSnapshot":
        return {"k": "task", "n": N(ev["n"]), "task": "takeSnapshot", "arg": {"threshold": ev.get("threshold", 0)}}
    if k in ("snapGAsk", "snapGStore", "snapTaken"):
        return {"k": k, "n": N(ev["n"])}
    if k in ("snapReq",):
        return {"k": "appendReq", "i": N(ev["i"]), "j": N(ev["j"])}
    if k in ("snapResp",):
        return {"k": "appendResp", "i": N(ev["i"]), "j": N(ev["j"])}
    if k in ("replSend", "appendResp", "replFail", "replPoll"):
        st = {"k": k, "i": N(ev["i"]), "j": N(ev["j"])}
        if ev.get("dialFail"):
            st["fail"] = True
        return st
    if k == "appendReq":
        return {"k": k, "i": N(ev["i"]), "j": N(ev["j"])}
    if k == "ldrUpdates":
        return {"k": k, "n": N(ev["n"])}
    if k == "client":
        return {"k": "client", "n": N(ev["n"]), "ops": [{"op": ev.get("op", "update"), "id": ev["val"]}]}
    if k in ("fsm", "crash", "restart", "shutdown"):
        return {"k": k, "n": N(ev["n"])}
    if k == "changeConfig":
        nodes = ev["nodes"]
        lst = [{"id": node_num(i), "voter": v["voter"], "action": v["action"]} for i, v in (nodes.items() if isinstance(nodes, dict) else [])]
        lst.sort(key=lambda x: x["id"])
        return {"k": "task", "n": N(ev["n"]), "task": "changeConfig", "arg": {"nodes": lst}}
    if k == "disconnected":
        return {"k": k, "n": N(ev["n"]), "peer": N(ev["peer"])}
    if k == "transfer":
        return {"k": "task", "n": N(ev["n"]), "task": "transfer", "arg": {"target": 0 if ev["target"] in ("None", None) else N(ev["target"])}}
    if k in ("xferTimeout", "newTermTimeout"):
        return {"k": k, "n": N(ev["n"])}
    raise HarnessError("unknown event kind %r" % (k,))


def node_set(txt):
    return [node_num(x.strip()) for x in txt.strip("{} ").split(",") if x.strip()]


def schedule_from_events(name, events, consts):
    c = dict(BASE_CONSTANTS)
    c.update(consts)
    steps = []
    for e in events:
        st = ev_to_step(e)
        if st:
            if e.get("rf") is False:
                st["rf"] = False
            steps.append(st)
    eager = {"ldr": c["EagerLdr"] == "TRUE", "poll": c["EagerPoll"] == "TRUE", "fsm": c["EagerFsm"] == "TRUE"}
    if int(c.get("MaxAppend", 64)) < 64:
        eager["maxAppend"] = int(c["MaxAppend"])
    return {"name": name, "nodes": node_set(c["Node"]), "voters": node_set(c["InitVoters"]), "nonvoters": node_set(c["InitNonvoters"]),
            "eager": eager, "steps": steps}


def cex_events(path):
    d = json.load(open(path))
    return [st[1]["ev"] for st in d["counterexample"]["state"]]


def sched_lines(out):
    """SCHED lines printed by RaftSim!Dump under -simulate"""
    res = []
    for m in re.finditer(r'<<"SCHED", "(.*)">>', out):
        txt = m.group(1).encode().decode("unicode_escape") if "\\" in m.group(1) else m.group(1)
        try:
            res.append(json.loads(txt))
        except Exception:
            try:
                res.append(json.loads(m.group(1).replace('\\"', '"')))
            except Exception:
                pass
    return res


# ---------------------------------------------------------------- harness runs
def run_sim(binary, schedules, workdir, shards=None, timeout=900, tag="sim"):
    """Replays schedules on the real code (Layer 1). Returns list of record files."""
    if not schedules:
        return []
    shards = max(1, min(shards or NCPU, len(schedules)))
    procs, outs = [], []
    tmp = os.path.join(workdir, tag + "-dirs")
    os.makedirs(tmp, exist_ok=True)
    for k in range(shards):
        part = schedules[k::shards]
        sf = os.path.join(workdir, "%s-sched-%d.ndjson" % (tag, k))
        of = os.path.join(workdir, "%s-rec-%d.ndjson" % (tag, k))
        with open(sf, "w") as f:
            for s in part:
                f.write(json.dumps(s) + "\n")
        e = dict(os.environ, VERIF_SCHED=sf, VERIF_OUT=of, VERIF_TMP=tmp)
        procs.append(subprocess.Popen([binary, "-test.run", "^TestVerifSim$", "-test.timeout", "%ds" % timeout],
                                      cwd=workdir, env=e, stdout=subprocess.PIPE, stderr=subprocess.STDOUT, text=True))
        outs.append(of)
    for p in procs:
        try:
            o, _ = p.communicate(timeout=timeout + 30)
        except subprocess.TimeoutExpired:
            p.kill()
            raise HarnessError("sim harness timed out")
        if p.returncode != 0:
            raise HarnessError("sim harness failed (rc=%d):\n%s" % (p.returncode, o[-3000:]))
    shutil.rmtree(tmp, ignore_errors=True)
    return outs


def run_fuzz(binary, spec, workdir, shards=None, timeout=900, tag="fuzz"):
    """Randomized Layer-1 driver (weighted towards progress, seeded). Returns record files."""
    runs = spec["runs"]
    shards = max(1, min(shards or NCPU, runs))
    per = (runs + shards - 1) // shards
    procs, outs = [], []
    tmp = os.path.join(workdir, tag + "-dirs")
    os.makedirs(tmp, exist_ok=True)
    first = 0
    k = 0
    while first < runs:
        n = min(per, runs - first)
        of = os.path.join(workdir, "%s-rec-%d.ndjson" % (tag, k))
        e = dict(os.environ, VERIF_FUZZ=json.dumps(dict(spec, runs=n)), VERIF_FUZZ_FIRST=str(first), VERIF_OUT=of, VERIF_TMP=tmp)
        procs.append(subprocess.Popen([binary, "-test.run", "^TestVerifFuzz$", "-test.timeout", "%ds" % timeout],
                                      cwd=workdir, env=e, stdout=subprocess.PIPE, stderr=subprocess.STDOUT, text=True))
        outs.append(of)
        first += n
        k += 1
    for p in procs:
        try:
            o, _ = p.communicate(timeout=timeout + 30)
        except subprocess.TimeoutExpired:
            p.kill()
            raise HarnessError("fuzz harness timed out")
        if p.returncode != 0:
            raise HarnessError("fuzz harness failed (rc=%d):\n%s\n...\n%s" % (p.returncode, o[:3000], o[-600:]))
    shutil.rmtree(tmp, ignore_errors=True)
    return outs


def schedules_from_records(files):
    """Rebuilds the stimulus sequences of recorded runs (for replay files and trace-validation grouping)."""
    res = {}
    order = []
    for f in files:
        with open(f) as fh:
            for line in fh:
                r = json.loads(line)
                name = r["sched"]
                if r["ev"].get("kind") == "init":
                    e = r["ev"]
                    res[name] = {"name": name, "nodes": e["nodes"], "voters": e["voters"], "nonvoters": e["nonvoters"], "eager": e["eager"], "steps": []}
                    order.append(name)
                else:
                    res[name]["steps"].append(r["stim"])
    return [res[n] for n in order]


def concat(files, dest):
    with open(dest, "w") as w:
        for f in files:
            with open(f) as r:
                shutil.copyfileobj(r, w)
    return dest


def count_lines(path):
    n = 0
    with open(path) as f:
        for _ in f:
            n += 1
    return n


# ---------------------------------------------------------------- observation check (O)
def split_runs(records, workdir, shards, tag):
    """Splits a record file into shard files at run boundaries (a record with ev.kind = init starts a run); streaming,
    at most ~100 runs per shard (TLC holds a whole shard in memory; the shards are processed by a pool of PAR TLC processes)."""
    nruns = 0
    with open(records) as f:
        for line in f:
            if '"kind":"init"' in line:
                nruns += 1
    nruns = max(nruns, 1)
    k = max(1, min(max(shards, (nruns + 99) // 100), nruns))
    os.makedirs(workdir, exist_ok=True)
    paths = [os.path.join(workdir, "%s-shard-%d.ndjson" % (tag, i)) for i in range(k)]
    outs = [open(p, "w") for p in paths]
    cur = -1
    with open(records) as f:
        for line in f:
            if '"kind":"init"' in line or cur < 0:
                cur += 1
            outs[cur % k].write(line)
    for o in outs:
        o.close()
    return [p for p in paths if os.path.getsize(p) > 0]


PAR = max(1, NCPU // 2)


def _obs_one(records, workdir, timeout):
    cfg = "CONSTANTS None = 0\n TrackClients = TRUE\nINIT Init\nNEXT Next\nINVARIANT Report\n"
    r = tlc(workdir, "RaftObs", cfg, args=["-workers", "1"], timeout=timeout, env={"VERIF_TRACE": records}, name="RaftObs", heap="3g")
    m = re.search(r'<<"OBS-RESULT", "(.*)", (\d+)>>', r["out"])
    if not m:
        raise HarnessError("observation check did not complete:\n" + r["out"][-3000:])
    txt = m.group(1).replace('\\"', '"')
    return json.loads(txt), int(m.group(2))


def obs_check(records, workdir, timeout=900):
    """TLC evaluates the RaftProps operators on the recorded real-code states (runs are sharded over parallel TLC
    processes). Returns (violations [[prop, sched, seq]...], records_checked)."""
    global _obs_seq
    _obs_seq += 1
    base = os.path.join(workdir, "obs%d" % _obs_seq)
    shards = split_runs(records, base, PAR, "obs")
    viol, n = [], 0
    with concurrent.futures.ThreadPoolExecutor(max_workers=PAR) as ex:
        futs = [ex.submit(_obs_one, sh, os.path.join(base, "w%d" % i), timeout) for i, sh in enumerate(shards)]
        for f in futs:
            v, k = f.result()
            viol += v
            n += k
    return sorted(viol), n


_obs_seq = 0


# ---------------------------------------------------------------- trace validation (T)
TRACE_CONSTS = {"None": "0", "MaxTerm": 100000, "MaxLog": 100000, "MaxCmds": 100000, "MaxCrash": 100000, "MaxInflight": 100000,
                "MaxElections": 100000, "Orphans": "TRUE", "Reduce": "FALSE", "KeepHist": "FALSE",
                "MaxRoundOrd": 100000, "MaxCfgReqs": 100000, "MaxSnaps": 100000, "RoundFastSet": "{TRUE, FALSE}", "MaxXfers": 100000, "MaxXferTries": 100000, "NetFaults": "TRUE", "TrackClients": "TRUE"}


def _trace_one(records, workdir, sched0, timeout=900, max_drifts=4):
    """Validates the recorded real-code behaviours against Raft.tla (RaftTrace.tla).
    All runs in `records` must share the cluster constants of schedule `sched0`.
    Returns dict(accepted_runs, total_runs, drifts=[{sched, seq}], records)."""
    def ids(xs):
        return "{" + ", ".join(str(x) for x in xs) + "}"
    consts = dict(BASE_CONSTANTS)
    consts.update(TRACE_CONSTS)
    consts.update({"Node": ids(sched0["nodes"]), "InitVoters": ids(sched0["voters"]), "InitNonvoters": ids(sched0["nonvoters"]),
                   "EagerLdr": "TRUE" if sched0["eager"]["ldr"] else "FALSE", "EagerPoll": "TRUE" if sched0["eager"]["poll"] else "FALSE",
                   "EagerFsm": "TRUE" if sched0["eager"]["fsm"] else "FALSE",
                   "MaxAppend": sched0["eager"].get("maxAppend") or 64})
    cfg = "\n".join(["CONSTANTS"] + [" %s = %s" % (k, v) for k, v in consts.items()] + ["INIT TInit", "NEXT TNext", "INVARIANT Progress"]) + "\n"
    os.makedirs(workdir, exist_ok=True)
    lines = open(records).read().splitlines()
    total_runs = sum(1 for x in lines if '"kind":"init"' in x)
    drifts = []
    cur = lines
    offset_runs = 0
    attempt = 0
    while True:
        f = os.path.join(workdir, "trace-%d.ndjson" % attempt)
        with open(f, "w") as fh:
            fh.write("\n".join(cur) + "\n")
        r = tlc(os.path.join(workdir, "trace-%d" % attempt), "RaftTrace", cfg, args=["-workers", "1"], timeout=timeout,
                env={"VERIF_TRACE": f}, name="RaftTrace")
        if r["error"]:
            raise HarnessError("trace validation failed to run: " + r["error"][:600])
        m = re.search(r"depth of the complete state graph search is (\d+)", r["out"])
        depth = int(m.group(1)) if m else 0
        if "TRACE-ACCEPTED" in r["out"] or depth - 1 >= len(cur):
            break
        k = depth - 1  # records matched; cur[k] is the first record the spec cannot follow
        if k >= len(cur):
            break
        bad = json.loads(cur[k])
        drifts.append({"sched": bad.get("sched"), "seq": bad.get("seq"), "ev": bad.get("ev")})
        # drop the rest of that run, continue with the following runs
        nxt = k + 1
        while nxt < len(cur) and '"kind":"init"' not in cur[nxt]:
            nxt += 1
        start = k
        while start > 0 and '"kind":"init"' not in cur[start]:
            start -= 1
        cur = cur[:start] + cur[nxt:]
        attempt += 1
        if attempt > max_drifts or not cur:
            break
    return {"total_runs": total_runs, "drifts": drifts, "accepted_runs": total_runs - len(drifts), "records": len(lines),
            "complete": attempt <= max_drifts}


def trace_validate(records, workdir, sched0, timeout=900, max_drifts=4):
    """Sharded over parallel TLC processes; see _trace_one."""
    shards = split_runs(records, workdir, PAR, "tv")
    res = {"total_runs": 0, "drifts": [], "accepted_runs": 0, "records": 0, "complete": True}
    with concurrent.futures.ThreadPoolExecutor(max_workers=PAR) as ex:
        futs = [ex.submit(_trace_one, sh, os.path.join(workdir, "s%d" % i), sched0, timeout, max_drifts) for i, sh in enumerate(shards)]
        for f in futs:
            r = f.result()
            res["total_runs"] += r["total_runs"]
            res["accepted_runs"] += r["accepted_runs"]
            res["records"] += r["records"]
            res["drifts"] += r["drifts"]
            res["complete"] = res["complete"] and r["complete"]
    res["drifts"].sort(key=lambda d: (str(d["sched"]), d["seq"]))
    return res


# ---------------------------------------------------------------- known findings
def load_known():
    path = os.path.join(VERIF, "known_findings.jsonl")
    res = []
    if os.path.exists(path):
        for line in open(path):
            line = line.strip()
            if line and not line.startswith("#"):
                res.append(json.loads(line))
    return res


# ---------------------------------------------------------------- evidence
REPLAY_MODE = "--replay" in sys.argv


def write_evidence(pid, tier, seed, level, coverage, assumptions, wall, violations, extra=None):
    ev = {"property_id": pid, "tier": tier, "seed": seed, "level": level, "coverage": coverage,
          "assumptions": assumptions, "wall_s": round(wall, 2), "violations": violations}
    if extra:
        ev.update(extra)
    # (VERIF_EVIDENCE_DIR: only for experiments on scratch copies of the repository, e.g. seeded changes)
    evdir = os.environ.get("VERIF_EVIDENCE_DIR", os.path.join(VERIF, "evidence"))
    if REPLAY_MODE:
        # a --replay invocation examines one stored case: it is not a check run and must not replace the evidence of one
        evdir = os.path.join(VERIF, "out", "replay-evidence")
    os.makedirs(evdir, exist_ok=True)
    with open(os.path.join(evdir, pid + ".json"), "w") as f:
        json.dump(ev, f, indent=1)
    return ev


def sched_hash(s):
    return hashlib.sha1(json.dumps(s["steps"], sort_keys=True).encode()).hexdigest()[:12]
