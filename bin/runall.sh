#!/bin/bash
# usage: runall.sh tier seed ids...
tier=$1; seed=$2; shift 2
cd "$(dirname "$0")/.."; mkdir -p out
for id in "$@"; do
  case $id in
    C13|C14) cmd="python3 bin/check_log.py $id --tier $tier";;
    C18) cmd="python3 bin/check_wire.py $id --tier $tier";;
    C20) cmd="python3 bin/check_ident.py $id --tier $tier";;
    *) cmd="python3 bin/check.py $id --tier $tier";;
  esac
  s=$(date +%s)
  VERIF_SEED=$seed $cmd > out/$tier-$id-$seed.log 2>&1
  rc=$?
  echo "$id seed=$seed rc=$rc $(( $(date +%s) - s ))s $(grep -c DRIFT out/$tier-$id-$seed.log) drifts $(grep -c VIOLATION out/$tier-$id-$seed.log) viol"
done
