#!/bin/sh
# Builds the harness test binaries from /repo's CURRENT working tree with the verif tag on.
# Harness sources in /verif/harness/<pkg> are injected with -overlay (nothing is written under /repo).
# usage: build_harness.sh <outdir>   -> <outdir>/raft.test <outdir>/log.test
set -e
OUT="$1"; mkdir -p "$OUT"
REPO=${VERIF_REPO:-/repo}
VROOT=$(cd "$(dirname "$0")/.." && pwd)
export GOFLAGS=-mod=mod GOPROXY=off GOSUMDB=off GOTOOLCHAIN=local
cp "$REPO/go.mod" "$OUT/go.mod"; cp "$REPO/go.sum" "$OUT/go.sum"
python3 - "$OUT" "$REPO" "$VROOT" <<'PY'
import json,os,sys,glob
out,repo,vroot=sys.argv[1],sys.argv[2],sys.argv[3]
ov={}
for f in glob.glob(os.path.join(vroot,'harness/raft/*.go')): ov[os.path.join(repo,os.path.basename(f))]=f
for f in glob.glob(os.path.join(vroot,'harness/log/*.go')): ov[os.path.join(repo,'log',os.path.basename(f))]=f
json.dump({"Replace":ov},open(os.path.join(out,'overlay.json'),'w'))
PY
cd "$REPO"
go test -c -vet=off -tags verif -modfile "$OUT/go.mod" -overlay "$OUT/overlay.json" -o "$OUT/raft.test" . 
if ls "$VROOT"/harness/log/*.go >/dev/null 2>&1; then
  go test -c -vet=off -tags verif -modfile "$OUT/go.mod" -overlay "$OUT/overlay.json" -o "$OUT/log.test" ./log
fi
