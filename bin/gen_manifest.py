#!/usr/bin/env python3
"""Writes /verif/MANIFEST.json from the plans (one source of truth for what is claimed)."""
import json
import os
import subprocess
import sys

sys.path.insert(0, os.path.dirname(os.path.abspath(__file__)))
import plans

VERIF = os.path.dirname(os.path.dirname(os.path.abspath(__file__)))
props = [json.loads(l) for l in open(os.path.join(VERIF, "properties.jsonl"))]

TEXT = {
    "C01": ("model_checking", "TLC exhausts bounded configurations of Raft.tla (elections, votes, crashes) for ElectionSafety; TLC-generated behaviours and guard-off counterexamples are replayed on the real nodes, the recorded real states are validated against the spec (RaftTrace) and the property operator is evaluated on them (RaftObs)", "5.C01"),
    "C02": ("model_checking", "bounded exhaustive check of commit rules (agreement, leader completeness, committed entries never overwritten) on Raft.tla + replay of simulated/attack schedules on real nodes with a committed-entry ledger evaluated by TLC on the observed states", "5.C02"),
    "C03": ("model_checking", "FSM contents = committed updates in order, checked on the spec (bounded, exhaustive) and on the recording FSM of real nodes under replayed schedules", "5.C03"),
    "C04": ("model_checking", "log matching over all node pairs in every reachable state of the bounded model and in every observed state of replayed schedules (incl. stale/reordered requests of abandoned connections)", "5.C04"),
    "C05": ("model_checking", "one vote per (voter, term), term monotone incl. restarts, grant durable at reply time: bounded exhaustive on the spec; on real code the disk state is read back after every step of replayed schedules", "5.C05"),
    "C06": ("model_checking", "at every commit decision the voters of the configuration in force are counted on their flushed prefixes (segment headers of the real logs); bounded exhaustive on the spec incl. 1<->2 voter reconfigurations", "5.C06"),
    "C08": ("model_checking", "membership requests (add/promote/demote/remove/force-remove, two edits per request) in the bounded model; one-voter-delta and introduce-only-when-safe evaluated at the instant the leader changes configuration (tracer point)", "5.C08"),
    "C11": ("model_checking", "only voters campaign/lead, promotion only after a completed round, demoted leader steps down, removed node stops only after commit: action predicates on spec steps and on observed real steps", "5.C11"),
    "C09": ("model_checking", "snapshot goroutine, FSM queue, compaction on segment boundaries, log views of replications and snapshot installation are modelled step by step; snapshot contents = committed updates, FSM = replay of the ledger, and no replication task dies on an invalidated view - on the bounded model and on real nodes (1 KiB segments, gated snapshot goroutine)", "5.C09"),
    "C12": ("model_checking", "every interleaving of the snapshot request with commits and FSM progress in the bounded model; on real code the .meta file is decoded after every step and compared with the ledger of committed configuration entries", "5.C12"),
    "C10": ("fault_enumeration", "a crash is armed at a verif hook point inside a handler (vote persisted, value file renamed/set, entries truncated / appended before and after flush, leader flush, snapshot published, log cleared, segment create/remove/sync points of the log package, bootstrap); when the real node reaches it the storage directory is copied as it is at that instant (completed file operations survive, unflushed tail lost), the node is buried and later restarted with the real New() on that image; TLC (RaftObs) judges the restart record: starts, term/vote not older than acknowledged, every acknowledged entry retained, log contiguous with the snapshot, and C01-C05 predicates on the rest of the run; whole-process crashes between steps are additionally exhausted in the bounded model (Inv_C10)", "5.C10"),
    "C15": ("model_checking", "death by assertion / nil dereference / out-of-range in the raft, FSM, snapshot and replication goroutines is an explicit outcome ('died') of the specification's actions (views invalidated by compaction, nil log views) and is observed on real nodes through recover() in the harness thread that plays each goroutine; every task submitted in a run must be complete, exactly once, after every node was shut down (ErrServerClosed for the pending ones)", "5.C15"),
    "C07": ("model_checking", "updates, reads, barriers and dirty reads are client operations of Raft.tla (leader queue with non-log entries answered at commit, FSM goroutine answering dirty reads on any node, definitive and ambiguous failures at leader release / shutdown); a client ledger (submission clock, completions with result and position, pending reads with the updates the leader had accepted) is maintained by the same TLA+ operators on model states and on records of real runs; judged: a completed update sits at the reported position of the completing node's state machine, no update is applied twice, definitively rejected updates never appear in any state machine, an update completed before another was submitted precedes it everywhere, a leader's read/barrier answer contains every update that leader had accepted, every read result (dirty reads included) is a prefix of the committed updates; task outcomes (operation, result, position, read contents) are also compared step by step in trace validation", "5.C07"),
    "C16": ("model_checking", "the transfer task, target choice (given / any in Go map order / invalid), the timeout-now RPC with loss of request or reply, the transfer and new-term timers as always-enabled actions, rejection of entries and membership changes while in progress, and the reply at leader release are actions of Raft.tla; bounded exhaustive on 2-voter clusters, guard-off attack schedules, TLC-simulated and randomized schedules with transfers replayed on real nodes; TLC judges: success only after the old leader stepped down to a higher term, successor is a voter holding the whole log (observed at the instant timeout-now is sent), log does not grow during a transfer, one leader per term, and convergence of a fair continuation after failed transfers", "5.C16"),
    "C17": ("model_checking", "(a) stickiness: a follower that knows a leader neither grants nor raises its term on a non-transfer vote request - action property on spec steps (bounded exhaustive) and on observed real steps; (b) convergence: random fault histories on real nodes (crashes, failed connections, snapshots, membership changes) are followed by a fair, fault-free continuation driven round-robin; within 60 rounds a leader must exist and a fresh update must be applied on every running member; the whole run is validated against Raft.tla", "5.C17"),
    "C19": ("model_checking", "ordering and monotonicity of (term, commit, applied, snapshot, config indexes) on every state of the bounded model and every observed real state", "5.C19"),
}

LOG_TEXT = {
    "C13": ("model_checking", "SegLog.tla (abstract sequence + segmentation) is exhausted by TLC for short operation sequences; TLC-generated and directed operation sequences are replayed on a real log directory and every API observation (indexes, bytes, multi-entry reads, contains, CanLTE, front removal, view stability, results) is compared with the specification by TLC (SegLogTrace)", "5.C13"),
    "C14": ("fault_enumeration", "at every hook point inside every log operation of the replayed sequences the directory is copied (process-kill image) and combined with last-flushed file contents (power-loss images); each image is reopened with the real log.Open and judged by the TLA+ predicate RecoverOK against the specification's pre/post state of that operation", "5.C14"),
}
WIRE = {"C18": ("exploration", "TLC enumerates every vector of Wire.tla (grammar of every message, entry, configuration, snapshot label, replication status, task response, value file x value class per field); each vector is run through the real codecs: round trip with trailing bytes, bytes consumed = EncLen computed by the specification, every sampled proper prefix fails; TLC (WireObs) evaluates the predicates", "5.C18")}
IDENT = {"C20": ("model_checking", "Identity.tla (dialers with an intended identity, listeners, address maps that may change at any time, pooled connections, handshake, SetIdentity and the directory lock) is exhausted by TLC for short operation sequences; TLC-generated and directed sequences (address re-use by a foreign cluster) are executed on real Serve()d nodes with the real connPool; TLC (IdentityTrace) compares every outcome and evaluates isolation on the requests observed at Raft.onRequest", "5.C20")}
checks = []
for p in props:
    pid = p["id"]
    if pid in IDENT:
        cat, text, ref = IDENT[pid]
        checks.append({
            "property_id": pid,
            "quick_cmd": "python3 bin/check_ident.py %s --tier quick" % pid,
            "thorough_cmd": "python3 bin/check_ident.py %s --tier thorough" % pid,
            "evidence_file": "/verif/evidence/%s.json" % pid,
            "replay_cmd_template": "python3 bin/check_ident.py %s --replay {path}" % pid,
            "engine": "tlc-identity",
            "level_claimed": {"category": cat, "text": text, "design_ref": ref},
            "level_note": "3 identities in 2 clusters, 2 addresses, 2 directories, one dialer; concurrent Serve/SetIdentity on one directory are serialised by the harness (the link-then-compare lock race itself is not exercised)",
            "technique": "explicit TLA+ spec (Identity.tla) model-checked with TLC; generated operation sequences executed on real nodes; TLC trace validation of outcomes and observed request routing",
        })
        continue
    if pid in WIRE:
        cat, text, ref = WIRE[pid]
        checks.append({
            "property_id": pid,
            "quick_cmd": "python3 bin/check_wire.py %s --tier quick" % pid,
            "thorough_cmd": "python3 bin/check_wire.py %s --tier thorough" % pid,
            "evidence_file": "/verif/evidence/%s.json" % pid,
            "replay_cmd_template": "python3 bin/check_wire.py %s --replay {path}" % pid,
            "engine": "tlc-wire",
            "level_claimed": {"category": cat, "text": text, "design_ref": ref},
            "level_note": "exhaustive over the product of value classes, one representative value per class; the specification contributes grammar, class product and encoded lengths - not value fidelity inside a class",
            "technique": "TLA+ grammar (Wire.tla): TLC state graph -> one implementation test per initial state; predicates evaluated by TLC on the codec reports",
        })
        continue
    if pid in LOG_TEXT:
        cat, text, ref = LOG_TEXT[pid]
        checks.append({
            "property_id": pid,
            "quick_cmd": "python3 bin/check_log.py %s --tier quick" % pid,
            "thorough_cmd": "python3 bin/check_log.py %s --tier thorough" % pid,
            "evidence_file": "/verif/evidence/%s.json" % pid,
            "replay_cmd_template": "python3 bin/check_log.py %s --replay {path}" % pid,
            "engine": "tlc-seglog",
            "level_claimed": {"category": cat, "text": text, "design_ref": ref},
            "level_note": "segment size 1 KiB, payload sizes {0,10,400,1000,1001}; power-loss model at file granularity, directory operations durable once completed; SegLog.tla is the trusted reference of the abstract sequence",
            "technique": "explicit TLA+ spec (SegLog.tla) model-checked with TLC; TLC-generated operation sequences replayed on the real log; TLC trace validation of every observation and TLA+ recovery predicate on every crash image",
        })
        continue
    if pid not in plans.PLANS or pid not in TEXT:
        continue
    cat, text, ref = TEXT[pid]
    NOTE = {
        "C10": "crash points = the verif hook points (source level, between storage operations of raft and log packages), not every machine instruction; process-crash model (completed file operations survive); crash-point runs are judged by the property operators only (not trace-validated); power loss of the log is C14",
        "C15": "data races, concurrent map access and goroutine deadlocks of the real scheduler are NOT decided: the deterministic harness runs every goroutine's code on one thread; transfers (C16) are not part of the schedules",
        "C07": "one client operation per step (batches of several operations in one newEntry chain are not generated); linearizability across leaders is not claimed by the property (reads are answered by a leader without a quorum round) and not checked; histories come from the deterministic harness, not from concurrent client goroutines",
        "C16": "timers are replaced by always-enabled timeout actions (no real time); 'leaves the cluster able to keep or elect a leader' is checked as bounded convergence of a fair continuation; exhaustive part limited to 2 voters (3-node configuration only in the thorough tier, time-capped)",
        "C17": "liveness is checked as bounded convergence of a fair deterministic continuation (timers replaced by an oracle that fires one election timeout at a time while nobody leads), not as a temporal property over real time; 'bounded number of election timeouts' = at most 60 scheduler rounds",
    }
    checks.append({
        "property_id": pid,
        "quick_cmd": "python3 bin/check.py %s --tier quick" % pid,
        "thorough_cmd": "python3 bin/check.py %s --tier thorough" % pid,
        "evidence_file": "/verif/evidence/%s.json" % pid,
        "replay_cmd_template": "python3 bin/check.py %s --replay {path}" % pid,
        "engine": "tlc-raft",
        "level_claimed": {"category": cat, "text": text, "design_ref": ref},
        "level_note": (NOTE[pid] + "; " if pid in NOTE else "") + "bounded model (see evidence.model_runs for constants and state counts); harness mirror of stateLoop post-processing and of replicate() control flow is trusted; verdicts only from property operators evaluated on states recorded from the real code",
        "technique": "explicit TLA+ spec (Raft.tla) model-checked with TLC; TLC-generated schedules replayed on real code; TLC trace validation + observation checking of recorded states",
    })

claimed = {c["property_id"] for c in checks}
REASONS = getattr(plans, "NOT_YET", {})
na = [{"property_id": p["id"], "reason": REASONS.get(p["id"], "check under construction in this round (specification module not finished yet)")} for p in props if p["id"] not in claimed]

hooks = subprocess.run(["git", "-C", "/repo", "log", "--format=%H %s"], stdout=subprocess.PIPE, text=True).stdout.splitlines()
hook_commits = [l.split()[0] for l in hooks if "verif hooks" in l]

m = {
    "version": 1,
    "setup_cmd": "python3 bin/setup.py",
    "hooks": {
        "guard": "verif",
        "enable": "bin/build_harness.sh: `go test -c -tags verif -overlay <generated>` run from /repo's working tree; harness sources in /verif/harness/<pkg> are overlaid into the packages (nothing is written under /repo)",
        "baseline_off_cmd": "cd /repo && GOFLAGS=-mod=mod GOPROXY=off GOSUMDB=off go test -vet=off -count=1 -timeout 25m ./...",
        "source_commits": hook_commits,
        "add_only": True,
    },
    "engines": [
        {"name": "tlc-raft", "path": "/verif/tla", "serves_properties": sorted(claimed),
         "kind_free_text": "TLA+ specification Raft.tla (+RaftProps property operators) checked with TLC: exhaustive bounded configs, -simulate schedule generation, RaftTrace trace validation and RaftObs observation checking of real-code recordings produced by the Layer-1 harness (/verif/harness/raft)"},
        {"name": "tlc-identity", "path": "/verif/tla/Identity.tla", "serves_properties": ["C20"], "kind_free_text": "TLA+ spec of identity handshake / address mix-ups / storage lock; IdentityTrace conformance of real Serve()d nodes and connPool"},
        {"name": "tlc-wire", "path": "/verif/tla/Wire.tla", "serves_properties": ["C18"], "kind_free_text": "TLA+ grammar of all encodings; vectors enumerated by TLC, run through the real codecs, judged by WireObs"},
        {"name": "tlc-seglog", "path": "/verif/tla/SegLog.tla", "serves_properties": ["C13", "C14"],
         "kind_free_text": "TLA+ specification of the segmented log (SegLog.tla), SegLogTrace conformance of recordings made by /verif/harness/log on real log directories incl. crash images"},
    ],
    "checks": checks,
    "notes": "see DESIGN.md; known_findings.jsonl lists repaired defects (fix: commits in /repo) and recorded findings",
    "not_applicable": na,
}
json.dump(m, open(os.path.join(VERIF, "MANIFEST.json"), "w"), indent=1)
print("checks:", sorted(claimed), "not claimed:", [x["property_id"] for x in na])
