#!/usr/bin/env python3
"""Offline setup: verifies that the tools the checks need are present. Builds nothing from the network."""
import shutil, subprocess, sys, os
ok = True
for tool in ("go", "java", "tlc"):
    if shutil.which(tool) is None:
        print("missing tool:", tool); ok = False
os.makedirs(os.path.join(os.path.dirname(os.path.abspath(__file__)), "..", "out"), exist_ok=True)
sys.exit(0 if ok else 1)
