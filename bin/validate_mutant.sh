#!/bin/bash
# usage: validate_mutant.sh <seeded-id> [suite]   -- works in a scratch worktree of /repo (never in /repo itself)
# 1. demo passes on the unchanged tree  2. demo fails with the patch  3. (suite) the repository's tests pass with the patch
set -u
id=$1; suite=${2:-}
export GOFLAGS=-mod=mod GOPROXY=off GOSUMDB=off GOTOOLCHAIN=local
S=/verif/seeded/$id
W=${VERIF_MW:-/tmp/mw-$id}
git -C /repo worktree remove --force $W >/dev/null 2>&1
git -C /repo worktree add -f --detach $W HEAD >/dev/null 2>&1 || { echo "$id worktree failed"; exit 2; }
trap 'git -C /repo worktree remove --force $W >/dev/null 2>&1' EXIT
cd $W
pkg=$(grep -m1 '^package ' $S/demo_test.go.txt | awk '{print $2}')
dir=.; [ "$pkg" = "log" ] && dir=log
tests=$(grep -o '^func Test[A-Za-z0-9_]*' $S/demo_test.go.txt | sed 's/func //' | paste -sd'|')
cp $S/demo_test.go.txt $dir/zz_demo_test.go
go test -vet=off -count=1 -timeout 10m -run "^($tests)\$" ./$dir > /tmp/vm-$id-clean.log 2>&1; clean=$?
git apply $S/patch.diff || { echo "$id patch does not apply"; exit 2; }
go test -vet=off -count=1 -timeout 10m -run "^($tests)\$" ./$dir > /tmp/vm-$id-mut.log 2>&1; mut=$?
suiterc=skipped
if [ -n "$suite" ]; then
  rm $dir/zz_demo_test.go
  go test -vet=off -count=1 -timeout 25m ./... > /tmp/vm-$id-suite.log 2>&1; suiterc=$?
fi
echo "$id demo_clean_rc=$clean demo_mutant_rc=$mut suite_rc=$suiterc"
