#!/usr/bin/env python3
"""Localises a trace-validation rejection: replays one schedule, runs RaftTrace with the rejected record accepted
unconditionally and prints the differences between the specification's successor state and the recorded real state.
  python3 bin/tdebug.py <schedule.json> [k]"""
import sys, json, os, re, shutil
sys.path.insert(0, os.path.dirname(os.path.abspath(__file__)))
import vlib

def flat(x, pre=""):
    out = {}
    if isinstance(x, dict):
        for k, v in x.items():
            out.update(flat(v, pre + "." + str(k)))
    elif isinstance(x, list):
        for i, v in enumerate(x):
            out.update(flat(v, pre + "[%d]" % i))
    else:
        out[pre] = x
    return out

def main():
    s = json.load(open(sys.argv[1]))
    w = vlib.scratch("tdbg")
    h = vlib.build_harness(os.path.join(w, "bin"))
    files = vlib.run_sim(h["raft"], [s], w)
    rec = files[0]
    tv = vlib.trace_validate(rec, os.path.join(w, "tv"), s, max_drifts=0)
    print("drifts:", [(d["sched"], d["seq"]) for d in tv["drifts"]])
    if not tv["drifts"] and len(sys.argv) < 3:
        return
    k = int(sys.argv[2]) if len(sys.argv) > 2 else tv["drifts"][0]["seq"]
    lines = open(rec).read().splitlines()
    # reuse trace_validate's cfg by calling tlc directly
    def ids(xs): return "{" + ", ".join(str(x) for x in xs) + "}"
    consts = dict(vlib.BASE_CONSTANTS); consts.update(vlib.TRACE_CONSTS)
    consts.update({"Node": ids(s["nodes"]), "InitVoters": ids(s["voters"]), "InitNonvoters": ids(s["nonvoters"]),
                   "EagerLdr": "TRUE" if s["eager"]["ldr"] else "FALSE", "EagerPoll": "TRUE" if s["eager"]["poll"] else "FALSE",
                   "EagerFsm": "TRUE" if s["eager"]["fsm"] else "FALSE"})
    cfg = "\n".join(["CONSTANTS"] + [" %s = %s" % (a, b) for a, b in consts.items()] + ["INIT TInit", "NEXT TNext", "INVARIANT DebugPrint"]) + "\n"
    r = vlib.tlc(os.path.join(w, "dbg"), "RaftTrace", cfg, args=["-workers", "1"], timeout=300, env={"VERIF_TRACE": rec, "VERIF_DEBUG_AT": str(k)}, name="RaftTrace")
    ms = re.findall(r'<<"SPEC-STATE", "(.*)">>', r["out"])
    real = json.loads(lines[k - 1])
    print("record", k, "stim", json.dumps(real["stim"]), "ev", json.dumps(real["ev"])[:300])
    if not ms:
        print("spec could not take the step at all (action not enabled / no matching message)"); print(r["out"][-1500:]); return
    seen = set()
    for m in ms:
        spec = json.loads(m.replace('\\"', '"'))
        key = json.dumps(spec, sort_keys=True)
        if key in seen: continue
        seen.add(key)
        print("---- spec successor candidate; spec ev:", json.dumps(spec["ev"])[:300])
        for n in real["nodes"]:
            sn = spec["node"][n["id"] - 1] if isinstance(spec["node"], list) else spec["node"].get(str(n["id"]))
            print(" node", n["id"], "REAL:", json.dumps({a: n[a] for a in ("state","term","vote","leader","commit","last","synced","aborted","votesNeeded")}), " log", [(e["i"],e["t"],e["y"]) for e in n["log"]])
            print("        SPEC:", json.dumps({a: sn.get(a) for a in ("state","term","vote","leader","commit","synced","aborted","votesNeeded","selfVote","logPrev")}), " log", [(e["t"],e["y"]) for e in sn["log"]])
            print("        REAL snap", json.dumps(n["snap"])[:300], "fsm", json.dumps(n["fsm"]), "snapG", n["snapG"], "bnds", n["bnds"])
            print("        SPEC snap", json.dumps({a: sn.get(a) for a in ("snapIdx", "snapTerm", "snapCmds", "fsmIdx", "fsmCmds", "bnds")})[:300], "snapCfg", json.dumps(sn.get("snapCfg"))[:200], "snapG", json.dumps(sn.get("snapG"))[:200], "fsmQ", json.dumps(sn.get("fsmQ"))[:300])
            print("        REAL cfgL", json.dumps(n["cfgL"]), "cfgC", n["cfgC"]["index"], " ldr", json.dumps(n["ldr"])[:900])
            print("        SPEC cfgL", json.dumps(sn["cfgL"]), "cfgC", sn["cfgC"]["index"], " ldr", json.dumps(sn["ldr"])[:900])
    shutil.rmtree(w, ignore_errors=True)

main()
