package log

// Conformance harness for the segmented log (properties C13, C14).
//
// Replays operation sequences generated from SegLog.tla on a REAL log
// directory (1 KiB segments) and records, after every operation, everything
// the exported API lets one observe (prev/last/count, every entry, multi-entry
// reads, CanLTE, views). At every verif hook point inside an operation the
// directory is copied - the crash image of a process kill at that instant -
// and, for the power-loss model, combined with the last flushed content of
// each file; every image is reopened with the real Open. TLC (SegLogTrace)
// decides whether the recorded behaviour is a behaviour of the specification
// and whether every image satisfies the recovery predicate.

import (
	"bufio"
	"encoding/json"
	"fmt"
	"hash/fnv"
	"io/ioutil"
	"os"
	"path/filepath"
	"sort"
	"strings"
	"testing"
)

type logOp struct {
	Op   string `json:"op"`
	Size int    `json:"size,omitempty"`
	ID   int    `json:"id,omitempty"`
	I    uint64 `json:"i,omitempty"`
	P    uint64 `json:"p,omitempty"`
	L    uint64 `json:"l,omitempty"`
	V    int    `json:"v,omitempty"`
}

type logSeq struct {
	Name string  `json:"name"`
	Ops  []logOp `json:"ops"`
}

type obsEntry struct {
	I    uint64 `json:"i"`
	ID   int    `json:"id"`
	Size int    `json:"size"`
	OK   bool   `json:"ok"`
}

type obsState struct {
	Prev    uint64     `json:"prev"`
	Last    uint64     `json:"last"`
	Count   uint64     `json:"count"`
	Ents    []obsEntry `json:"ents"`
	Bnds    []uint64   `json:"bnds"`
	Synced  uint64     `json:"synced"`
	CanLTE  []uint64   `json:"canLTE"` // CanLTE(prev), ..., CanLTE(last)
	GetNOK  bool       `json:"getNOK"` // every GetN(i, n) equals the concatenation of Get(i..i+n-1)
	ContOK  bool       `json:"containsOK"`
	Opened  bool       `json:"opened"`
	OpenErr string     `json:"openErr"`
}

type obsView struct {
	P    uint64     `json:"p"`
	L    uint64     `json:"l"`
	Nil  bool       `json:"nil"`
	Ents []obsEntry `json:"ents"`
	Err  string     `json:"err"`
}

type obsImage struct {
	Point string   `json:"point"`
	Model string   `json:"model"` // "kill" | "power"
	State obsState `json:"state"`
}

func payload(id, size int) []byte {
	b := make([]byte, size)
	hdr := []byte(fmt.Sprintf("%d:%d:", id, size))
	copy(b, hdr)
	h := fnv.New32a()
	h.Write(hdr)
	x := h.Sum32()
	for i := len(hdr); i < size; i++ {
		x = x*1664525 + 1013904223
		b[i] = byte(x >> 24)
	}
	return b
}

// decodes a payload; ok = it is exactly what payload(id,size) produced
func decodePayload(b []byte) (id, size int, ok bool) {
	if len(b) == 0 {
		return 0, 0, true
	}
	s := string(b)
	parts := strings.SplitN(s, ":", 3)
	if len(parts) < 3 {
		// sizes smaller than the header: compare with every small id
		for id := 0; id < 64; id++ {
			if string(payload(id, len(b))) == s {
				return id, len(b), true
			}
		}
		return -1, len(b), false
	}
	fmt.Sscanf(parts[0], "%d", &id)
	fmt.Sscanf(parts[1], "%d", &size)
	return id, len(b), size == len(b) && string(payload(id, size)) == s
}

func observe(l *Log) obsState {
	st := obsState{Prev: l.PrevIndex(), Last: l.LastIndex(), Count: l.Count(), Ents: []obsEntry{}, Bnds: []uint64{}, CanLTE: []uint64{}, GetNOK: true, ContOK: true, Opened: true}
	for i := st.Prev + 1; i <= st.Last; i++ {
		b, err := l.Get(i)
		if err != nil {
			st.Ents = append(st.Ents, obsEntry{I: i, ID: -1, OK: false})
			continue
		}
		id, size, ok := decodePayload(b)
		st.Ents = append(st.Ents, obsEntry{I: i, ID: id, Size: size, OK: ok})
	}
	if l.index == nil {
		for _, sg := range l.VerifSegments() {
			st.Bnds = append(st.Bnds, uint64(sg[0]))
		}
		st.Synced = l.VerifSyncedIndex()
		for i := st.Prev; i <= st.Last; i++ {
			st.CanLTE = append(st.CanLTE, l.CanLTE(i))
		}
	}
	// multi-entry reads across segments
	for i := st.Prev + 1; i <= st.Last; i++ {
		for n := uint64(1); i+n-1 <= st.Last && n <= 5; n++ {
			bufs, err := l.GetN(i, n)
			if err != nil {
				st.GetNOK = false
				continue
			}
			var got []byte
			for _, b := range bufs {
				got = append(got, b...)
			}
			var want []byte
			for k := i; k < i+n; k++ {
				b, _ := l.Get(k)
				want = append(want, b...)
			}
			if string(got) != string(want) {
				st.GetNOK = false
			}
		}
	}
	if _, err := l.Get(st.Prev); st.Prev > 0 && err != ErrNotFound {
		st.ContOK = false
	}
	for i := st.Prev; i <= st.Last+1; i++ {
		if l.Contains(i) != (i > st.Prev && i <= st.Last) {
			st.ContOK = false
		}
	}
	return st
}

func observeDir(dir string) obsState {
	l, err := Open(dir, 0700, Options{FileMode: 0600, SegmentSize: 1024})
	if err != nil {
		return obsState{Ents: []obsEntry{}, Bnds: []uint64{}, CanLTE: []uint64{}, OpenErr: err.Error()}
	}
	defer l.VerifCloseNoSync()
	return observe(l)
}

func copyDir(src, dst string) {
	_ = os.MkdirAll(dst, 0700)
	fis, _ := ioutil.ReadDir(src)
	for _, fi := range fis {
		b, err := ioutil.ReadFile(filepath.Join(src, fi.Name()))
		if err == nil {
			_ = ioutil.WriteFile(filepath.Join(dst, fi.Name()), b, 0600)
		}
	}
}

type logRun struct {
	dir     string
	l       *Log
	views   []*Log
	vbounds [][2]uint64
	durable map[string][]byte // file name -> content at its last flush (power-loss model)
	images  []obsImage
	imgSeq  int
	inOp    bool
	inHook  bool
}

func (r *logRun) snapshotDurable(name string) {
	b, err := ioutil.ReadFile(name)
	if err == nil {
		r.durable[filepath.Base(name)] = b
	}
}

func (r *logRun) hook(point string, args ...interface{}) {
	if !r.inOp || r.inHook {
		return
	}
	r.inHook = true // reopening an image runs log code too: its hook points are not crash points of the operation
	defer func() { r.inHook = false }()
	name, _ := args[0].(string)
	switch point {
	case "seg.sync.data", "seg.sync.done", "seg.create.synced":
		r.snapshotDurable(name)
	case "seg.remove.done":
		delete(r.durable, filepath.Base(name))
	}
	// process-kill image: the files exactly as they are now
	r.imgSeq++
	img := filepath.Join(filepath.Dir(r.dir), fmt.Sprintf("img%d", r.imgSeq))
	copyDir(r.dir, img)
	r.images = append(r.images, obsImage{Point: point, Model: "kill", State: observeDir(img)})
	// power-loss images: every file is either its last flushed content or its current content
	// (segment files are smaller than a page; directory operations are assumed durable once done)
	fis, _ := ioutil.ReadDir(img)
	var dirty []string
	for _, fi := range fis {
		cur, _ := ioutil.ReadFile(filepath.Join(img, fi.Name()))
		if d, ok := r.durable[fi.Name()]; ok && string(d) != string(cur) {
			dirty = append(dirty, fi.Name())
		}
	}
	sort.Strings(dirty)
	if len(dirty) > 0 && len(dirty) <= 3 {
		for mask := 1; mask < 1<<uint(len(dirty)); mask++ {
			r.imgSeq++
			pimg := filepath.Join(filepath.Dir(r.dir), fmt.Sprintf("img%d", r.imgSeq))
			copyDir(img, pimg)
			for k, f := range dirty {
				if mask&(1<<uint(k)) != 0 {
					_ = ioutil.WriteFile(filepath.Join(pimg, f), r.durable[f], 0600)
				}
			}
			r.images = append(r.images, obsImage{Point: point, Model: "power", State: observeDir(pimg)})
			_ = os.RemoveAll(pimg)
		}
	}
	_ = os.RemoveAll(img)
}

func runLogSeq(s logSeq, base string, out *json.Encoder) {
	root, err := ioutil.TempDir(base, "logrun")
	if err != nil {
		panic(err)
	}
	defer os.RemoveAll(root)
	r := &logRun{dir: filepath.Join(root, "log"), durable: map[string][]byte{}}
	SetVerifHook(r.hook)
	defer SetVerifHook(nil)
	opt := Options{FileMode: 0600, SegmentSize: 1024}
	r.l, err = Open(r.dir, 0700, opt)
	if err != nil {
		panic(err)
	}
	fis, _ := ioutil.ReadDir(r.dir)
	for _, fi := range fis {
		r.snapshotDurable(filepath.Join(r.dir, fi.Name()))
	}
	rec := func(seq int, op interface{}, res string, vs []obsView) {
		st := observe(r.l)
		imgs := r.images
		if imgs == nil {
			imgs = []obsImage{}
		}
		if vs == nil {
			vs = []obsView{}
		}
		_ = out.Encode(map[string]interface{}{"run": s.Name, "seq": seq, "op": op, "res": res, "state": st, "images": imgs, "views": vs})
		r.images = nil
	}
	rec(1, map[string]interface{}{"op": "init"}, "ok", nil)
	for k, op := range s.Ops {
		res := "ok"
		var vs []obsView
		func() {
			defer func() {
				if v := recover(); v != nil {
					res = fmt.Sprintf("panic: %v", v)
					if len(res) > 60 {
						res = res[:60]
					}
					if strings.Contains(res, "lastIndex") {
						res = "panic:range"
					} else if strings.Contains(res, "nil pointer") {
						res = "panic:nil"
					}
				}
			}()
			r.inOp = true
			defer func() { r.inOp = false }()
			var e error
			switch op.Op {
			case "append":
				e = r.l.Append(payload(op.ID, op.Size))
			case "commit":
				e = r.l.Commit()
			case "commitN":
				e = r.l.CommitN(op.I)
			case "removeLTE":
				// views are documented to be invalid after RemoveLTE / RemoveGTE (their segments may be unmapped)
				r.views, r.vbounds = nil, nil
				e = r.l.RemoveLTE(op.I)
			case "removeGTE":
				r.views, r.vbounds = nil, nil
				e = r.l.RemoveGTE(op.I)
			case "reset":
				e = r.l.Reset(op.I)
				r.views, r.vbounds = nil, nil
			case "reopen":
				e = r.l.Close()
				r.views, r.vbounds = nil, nil
				if e == nil {
					r.l, e = Open(r.dir, 0700, opt)
				}
			case "view":
				v := r.l.ViewAt(op.P, op.L)
				r.views = append(r.views, v)
				r.vbounds = append(r.vbounds, [2]uint64{op.P, op.L})
			case "crashReopen":
				// process kill between operations: nothing is flushed, then reopen
				r.l.VerifCloseNoSync()
				r.views, r.vbounds = nil, nil
				r.l, e = Open(r.dir, 0700, opt)
			}
			if e == ErrExceedsSegmentSize {
				res = "exceeds"
			} else if e != nil {
				res = "err: " + e.Error()
			}
		}()
		// every live view must keep returning the same bytes for its range
		for vi, v := range r.views {
			ov := obsView{P: r.vbounds[vi][0], L: r.vbounds[vi][1], Ents: []obsEntry{}}
			if v == nil {
				ov.Nil = true
				vs = append(vs, ov)
				continue
			}
			func() {
				defer func() {
					if x := recover(); x != nil {
						ov.Err = "panic"
					}
				}()
				for i := ov.P + 1; i <= ov.L; i++ {
					b, err := v.Get(i)
					if err != nil {
						ov.Ents = append(ov.Ents, obsEntry{I: i, ID: -1})
						continue
					}
					id, size, ok := decodePayload(b)
					ov.Ents = append(ov.Ents, obsEntry{I: i, ID: id, Size: size, OK: ok})
				}
			}()
			vs = append(vs, ov)
		}
		rec(k+2, op, res, vs)
	}
	r.l.VerifCloseNoSync()
}

func TestVerifLog(t *testing.T) {
	in, outFile := os.Getenv("VERIF_LOGOPS"), os.Getenv("VERIF_OUT")
	if in == "" || outFile == "" {
		t.Skip("VERIF_LOGOPS / VERIF_OUT not set")
	}
	f, err := os.Open(in)
	if err != nil {
		t.Fatal(err)
	}
	defer f.Close()
	of, err := os.Create(outFile)
	if err != nil {
		t.Fatal(err)
	}
	defer of.Close()
	w := bufio.NewWriterSize(of, 1<<20)
	defer w.Flush()
	enc := json.NewEncoder(w)
	base := os.Getenv("VERIF_TMP")
	if base == "" {
		base = os.TempDir()
	}
	sc := bufio.NewScanner(f)
	sc.Buffer(make([]byte, 1<<20), 1<<26)
	n := 0
	for sc.Scan() {
		if len(sc.Bytes()) == 0 {
			continue
		}
		var s logSeq
		if err := json.Unmarshal(sc.Bytes(), &s); err != nil {
			fmt.Fprintln(os.Stderr, "HARNESS-ERROR bad op sequence:", err)
			os.Exit(3)
		}
		runLogSeq(s, base, enc)
		n++
	}
	fmt.Printf("VERIF-LOG sequences=%d\n", n)
}
