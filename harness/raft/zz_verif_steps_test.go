package raft

// Layer-1: schedule steps (stimuli) other than replication, the projection of
// the real state, and the record writer.

import (
	"strings"
	"bytes"
	"encoding/json"
	"fmt"
	"io/ioutil"
	"sort"
	"time"
)

func skipped(why string) map[string]interface{} {
	return map[string]interface{}{"kind": "skipped", "why": why}
}

func resultName(r rpcResult) string {
	switch r {
	case success:
		return "success"
	case identityMismatch:
		return "identityMismatch"
	case staleTerm:
		return "staleTerm"
	case alreadyVoted:
		return "alreadyVoted"
	case leaderKnown:
		return "leaderKnown"
	case logNotUptodate:
		return "logNotUptodate"
	case prevEntryNotFound:
		return "prevEntryNotFound"
	case prevTermMismatch:
		return "prevTermMismatch"
	case nonVoter:
		return "nonVoter"
	case readErr:
		return "readErr"
	case unexpectedErr:
		return "unexpectedErr"
	}
	return fmt.Sprintf("result%d", r)
}

// step --------------------------------------------------------------------------

type simStep struct {
	K    string `json:"k"`
	N    uint64 `json:"n,omitempty"`
	From uint64 `json:"from,omitempty"`
	To   uint64 `json:"to,omitempty"`
	I    uint64 `json:"i,omitempty"`
	J    uint64 `json:"j,omitempty"`
	Peer uint64 `json:"peer,omitempty"`
	Term uint64 `json:"term,omitempty"`
	Conn int    `json:"conn,omitempty"`
	Ops  []struct {
		Op string `json:"op"`
		ID int    `json:"id,omitempty"`
	} `json:"ops,omitempty"`
	At *struct {
		Point string `json:"point"`
		Hit   int    `json:"hit"`
	} `json:"at,omitempty"`
	Task string                 `json:"task,omitempty"`
	Arg  map[string]interface{} `json:"arg,omitempty"`
	Rf   *bool                  `json:"rf,omitempty"`
	// network fault: the dial (replSend on a closed connection) or the RPC request fails although the peer is running
	Fail bool `json:"fail,omitempty"`
}

func (c *simCluster) doStep(s simStep) (ev map[string]interface{}) {
	simHarnessGoID = curGoID()
	c.evExtra = nil
	c.acts = []map[string]interface{}{}
	// RoundFast: the outcome of `round.Duration() > promoteThreshold` in this step
	thr := time.Hour
	if s.Rf != nil && !*s.Rf {
		thr = -1
	}
	for _, n := range c.nodes {
		if n.up {
			n.r.promoteThreshold = thr
		}
	}
	switch s.K {
	case "timeout":
		ev = c.stepTimeout(s.N)
	case "voteReq", "timeoutNowReq":
		ev = c.stepRPCReq(s.K[:len(s.K)-3], s.From, s.To, s.Term, s.Fail)
	case "voteResp", "timeoutNowResp":
		ev = c.stepRPCResp(s.K[:len(s.K)-4], s.From, s.To, s.Term)
	case "replSend":
		ev = c.stepReplSend(s.I, s.J, s.Fail)
	case "appendReq":
		ev = c.stepAppendReq(s.I, s.J, s.Conn)
	case "appendResp":
		ev = c.stepAppendResp(s.I, s.J)
	case "replFail":
		ev = c.stepReplFail(s.I, s.J)
	case "replPoll":
		ev = c.stepReplPoll(s.I, s.J)
	case "ldrUpdates":
		ev = c.stepLdrUpdates(s.N)
	case "client":
		ev = c.stepClient(s)
	case "fsm":
		ev = c.stepFsm(s.N)
	case "crash":
		ev = c.stepCrash(s)
	case "restart":
		ev = c.stepRestart(s.N)
	case "disconnected":
		ev = c.stepDisconnected(s.N, s.Peer)
	case "shutdown":
		ev = c.stepShutdown(s.N)
	case "snapGAsk":
		ev = c.stepSnapG(s.N, "ask")
	case "snapGStore":
		ev = c.stepSnapG(s.N, "store")
	case "snapTaken":
		ev = c.stepSnapTaken(s.N)
	case "task":
		ev = c.stepTask(s)
	case "xferTimeout", "newTermTimeout":
		ev = c.stepXferTimer(s.K, s.N)
	case "fairCheck":
		ev = c.stepFairCheck(s)
	case "final":
		ev = c.stepFinal()
	default:
		ev = skipped("unknown step " + s.K)
	}
	// a crash point reached in another goroutine of a node (snapshot goroutine): the process is dead
	if id := c.asyncCrash; id != 0 {
		c.asyncCrash = 0
		if n := c.nodes[id]; n != nil && n.up {
			n.kill()
			n.downProj = c.projectImage(n, c.crashImage)
			c.note(map[string]interface{}{"kind": "crashPoint", "n": id, "point": c.crashAt.point})
		}
	}
	c.settle()
	if c.eager.Fsm {
		for _, n := range c.nodes {
			if n.up {
				n.fsmDrain()
			}
		}
	}
	return ev
}

func (c *simCluster) stepTimeout(id uint64) map[string]interface{} {
	n := c.nodes[id]
	if n == nil || !n.up {
		return skipped("node down")
	}
	if !n.r.timer.active {
		return skipped("timer inactive")
	}
	ev := map[string]interface{}{"kind": "timeout", "n": id, "state": string(n.r.state)}
	n.event(func() {
		n.r.timer.active = false
		n.role(n.r.state).onTimeout()
	})
	return ev
}

func (c *simCluster) findRPC(kind string, from, to, term uint64, phase int) *simRPC {
	for _, rpc := range c.rpcs {
		if rpc.kind == kind && rpc.from == from && rpc.to == to && rpc.phase == phase && (term == 0 || rpc.term == term) {
			return rpc
		}
	}
	return nil
}

// rpcFailed: the client goroutine sees an error; its result reaches the
// channel and (if that election / transfer is still current) is consumed.
func (c *simCluster) rpcFailed(rpc *simRPC) {
	before := len(rpc.ch)
	rpc.conn.closeRemote()
	c.waitResult(rpc, before)
	rpc.phase = 2
	c.consumeResult(rpc)
}

func (c *simCluster) waitResult(rpc *simRPC, before int) {
	deadline := time.Now().Add(simWait)
	for len(rpc.ch) <= before {
		if time.Now().After(deadline) {
			panic(harnessStuck("rpc goroutine did not deliver its result"))
		}
		time.Sleep(20 * time.Microsecond)
	}
}

// consumeResult mirrors `case v := <-c.respCh` / `case result := <-l.transfer.respCh`.
func (c *simCluster) consumeResult(rpc *simRPC) {
	n := c.nodes[rpc.from]
	if n == nil || !n.up || n.inc != rpc.fromInc {
		return
	}
	switch rpc.kind {
	case "vote":
		if n.cur == Candidate && n.cnd.respCh == rpc.ch {
			for len(rpc.ch) > 0 && n.up && n.cur == Candidate && n.cnd.respCh == rpc.ch {
				n.event(func() {
					v := <-rpc.ch
					n.cnd.onVoteResult(v)
				})
			}
		}
	case "timeoutNow":
		if n.cur == Leader && n.l.transfer.respCh == rpc.ch {
			n.event(func() {
				v := <-rpc.ch
				n.l.onTimeoutNowResult(v)
			})
		}
	}
}

func (c *simCluster) stepRPCReq(kind string, from, to, term uint64, drop bool) map[string]interface{} {
	rp := c.findRPC(kind, from, to, term, 0)
	if rp == nil {
		return skipped("no such request")
	}
	ev := map[string]interface{}{"kind": kind + "Req", "from": from, "n": to, "term": rp.term, "transfer": rp.transfer,
		"lastIndex": rp.lastIdx, "lastTerm": rp.lastTerm}
	target := c.nodes[to]
	if target == nil || !target.up || drop {
		ev["lost"] = true
		if drop {
			ev["dropped"] = true
		}
		c.rpcFailed(rp)
		return ev
	}
	sc := rp.conn
	// identity handshake (connPool.getConn <-> server.handleConn/replyRPC)
	data := sc.takeOut()
	if len(data) == 0 || rpcType(data[0]) != rpcIdentity {
		panic(harnessStuck("identity request bytes missing"))
	}
	idReq := &identityReq{}
	if err := idReq.decode(bytes.NewReader(data[1:])); err != nil {
		panic(harnessStuck("identity decode: " + err.Error()))
	}
	sconn, _ := newSrvConn(nil)
	rpcObj := &rpc{req: idReq, conn: sconn, done: make(chan struct{})}
	target.event(func() {
		reset := target.r.replyRPC(rpcObj)
		if target.r.state == Follower && reset {
			target.f.resetTimer()
		}
	})
	if !target.up || rpcObj.resp == nil {
		ev["lost"] = true
		c.rpcFailed(rp)
		return ev
	}
	if rpcObj.resp.getResult() != success {
		ev["identity"] = resultName(rpcObj.resp.getResult())
		sc.feed(encodeResp(rpcObj.resp))
		c.rpcFailed(rp)
		return ev
	}
	target.peers[from] = true
	sc.feed(encodeResp(rpcObj.resp))
	if !sc.waitIdle(simWait) {
		panic(harnessStuck("rp goroutine did not write its request"))
	}
	data = sc.takeOut()
	if len(data) == 0 {
		panic(harnessStuck("request bytes missing"))
	}
	rtype := rpcType(data[0])
	rq := rtype.createReq()
	var sc2 *conn
	if !rtype.fromLeader() {
		if err := rq.decode(bytes.NewReader(data[1:])); err != nil {
			panic(harnessStuck("request decode: " + err.Error()))
		}
		sc2, _ = newSrvConn(nil)
	} else {
		sc2, _ = newSrvConn(data[1:])
	}
	rpcObj = &rpc{req: rq, conn: sc2, done: make(chan struct{})}
	inc := target.inc
	target.event(func() {
		reset := target.r.replyRPC(rpcObj)
		if target.r.state == Follower && reset {
			target.f.resetTimer()
		}
	})
	if rpcObj.resp != nil {
		rp.result = rpcObj.resp.getResult()
		rp.respTerm = rpcObj.resp.getTerm()
		ev["result"] = resultName(rp.result)
		ev["respTerm"] = rp.respTerm
	}
	if !target.up || target.inc != inc || rpcObj.resp == nil {
		ev["connClosed"] = true
		c.rpcFailed(rp)
		return ev
	}
	rp.resp = encodeResp(rpcObj.resp)
	rp.phase = 1
	return ev
}

func (c *simCluster) stepRPCResp(kind string, from, to, term uint64) map[string]interface{} {
	// `to` is the node that sent the request (the candidate / transferring leader)
	if kind == "vote" && from == to {
		n := c.nodes[to]
		if n == nil || !n.up || n.cur != Candidate || n.cnd.respCh == nil || len(n.cnd.respCh) == 0 {
			return skipped("no self vote pending")
		}
		ev := map[string]interface{}{"kind": "voteResp", "from": from, "n": to, "term": n.r.term, "self": true, "result": "success", "respTerm": n.r.term}
		n.event(func() {
			v := <-n.cnd.respCh
			n.cnd.onVoteResult(v)
		})
		return ev
	}
	rp := c.findRPC(kind, to, from, term, 1)
	if rp == nil {
		return skipped("no such response")
	}
	ev := map[string]interface{}{"kind": kind + "Resp", "from": from, "n": to, "term": rp.term, "result": resultName(rp.result), "respTerm": rp.respTerm}
	before := len(rp.ch)
	rp.conn.feed(rp.resp)
	c.waitResult(rp, before)
	rp.phase = 2
	n := c.nodes[to]
	if n != nil && n.up && n.inc == rp.fromInc {
		cur := (kind == "vote" && n.cur == Candidate && n.cnd.respCh == rp.ch) ||
			(kind == "timeoutNow" && n.cur == Leader && n.l.transfer.respCh == rp.ch)
		ev["current"] = cur
	} else {
		ev["current"] = false
	}
	c.consumeResult(rp)
	return ev
}

func (c *simCluster) stepDisconnected(id, peer uint64) map[string]interface{} {
	n := c.nodes[id]
	if n == nil || !n.up {
		return skipped("node down")
	}
	if !n.peers[peer] {
		return skipped("peer never connected")
	}
	ev := map[string]interface{}{"kind": "disconnected", "n": id, "peer": peer}
	n.event(func() {
		r := n.r
		if r.leader != 0 && peer != 0 && r.leader == peer {
			r.setLeader(0)
		}
	})
	return ev
}

func (c *simCluster) stepClient(s simStep) map[string]interface{} {
	n := c.nodes[s.N]
	if n == nil || !n.up {
		return skipped("node down")
	}
	var head, tail *newEntry
	var ids []interface{}
	for _, op := range s.Ops {
		var t FSMTask
		switch op.Op {
		case "update":
			t = UpdateFSM(makeCmd(op.ID))
		case "read":
			t = ReadFSM("all")
		case "dirty":
			t = DirtyReadFSM("all")
		case "barrier":
			t = BarrierFSM()
		default:
			continue
		}
		st := &simTask{id: len(c.tasks) + 1, kind: op.Op, node: s.N, inc: n.inc, val: op.ID, t: t}
		c.tasks = append(c.tasks, st)
		ids = append(ids, map[string]interface{}{"task": st.id, "op": op.Op, "val": op.ID})
		ne := t.newEntry()
		if tail != nil {
			tail.next, tail = ne, ne
		} else {
			head, tail = ne, ne
		}
	}
	if head == nil {
		return skipped("no ops")
	}
	ev := map[string]interface{}{"kind": "client", "n": s.N, "ops": ids, "state": string(n.r.state)}
	n.event(func() {
		r := n.r
		ne := head
		if r.state == Leader {
			n.l.storeEntry(ne)
		} else {
			for ne != nil {
				next := ne.next
				if ne.typ == entryDirtyRead {
					r.fsm.ch <- fsmDirtyRead{ne}
				} else {
					ne.reply(notLeaderError(r, false))
				}
				ne = next
			}
		}
	})
	return ev
}

func (c *simCluster) stepFsm(id uint64) map[string]interface{} {
	n := c.nodes[id]
	if n == nil || !n.up {
		return skipped("node down")
	}
	if !n.fsmStep() {
		return skipped("fsm queue empty")
	}
	if n.up {
		select {
		case err := <-n.r.fsmRestoredCh:
			if err != nil {
				n.event(func() { panic(err) })
			}
		default:
		}
	}
	return map[string]interface{}{"kind": "fsm", "n": id}
}

func (c *simCluster) stepCrash(s simStep) map[string]interface{} {
	n := c.nodes[s.N]
	if n == nil || !n.up {
		return skipped("node down")
	}
	if s.At != nil {
		// arm a crash point: the crash happens inside a later handler
		c.crashAt = &crashSpec{node: s.N, point: s.At.Point, hit: s.At.Hit}
		c.crashFired = false
		c.armSeq = c.seq
		return map[string]interface{}{"kind": "crashArmed", "n": s.N, "point": s.At.Point, "hit": s.At.Hit}
	}
	n.kill()
	return map[string]interface{}{"kind": "crash", "n": s.N}
}

// stateLoop `case <-l.transfer.timer.C` / `case <-l.transfer.newTermTimer.C`
func (c *simCluster) stepXferTimer(kind string, id uint64) map[string]interface{} {
	n := c.nodes[id]
	if n == nil || !n.up {
		return skipped("node down")
	}
	if n.cur != Leader || n.r.state != Leader {
		return skipped("not leader")
	}
	t := n.l.transfer.timer
	if kind == "newTermTimeout" {
		t = n.l.transfer.newTermTimer
	}
	if !t.active || !n.l.transfer.inProgress() {
		return skipped("timer inactive")
	}
	n.event(func() {
		// the timer "fires": take its tick if it is already there, otherwise disarm it
		if !t.timer.Stop() {
			select {
			case <-t.C:
			default:
			}
		}
		t.active = false
		if kind == "newTermTimeout" {
			n.l.onNewTermTimeout()
		} else {
			n.l.onTransferTimeout()
		}
	})
	return map[string]interface{}{"kind": kind, "n": id}
}

// Raft.Shutdown: doClose(ErrServerClosed); stateLoop sees r.close and returns
func (c *simCluster) stepShutdown(id uint64) map[string]interface{} {
	n := c.nodes[id]
	if n == nil || !n.up {
		return skipped("node down")
	}
	n.event(func() { n.r.doClose(ErrServerClosed) })
	return map[string]interface{}{"kind": "shutdown", "n": id}
}

func (c *simCluster) stepRestart(id uint64) map[string]interface{} {
	n := c.nodes[id]
	if n == nil || n.up {
		return skipped("node not down")
	}
	n.restart()
	if c.crashAt != nil && c.crashAt.node == id {
		c.crashAt, c.crashFired = nil, false
	}
	return map[string]interface{}{"kind": "restart", "n": id, "ok": n.up}
}

func parseAction(a string) Action {
	switch a {
	case "promote":
		return Promote
	case "demote":
		return Demote
	case "remove":
		return Remove
	case "forceRemove":
		return ForceRemove
	}
	return None
}

// stepTask mirrors `case t := <-r.taskCh` of stateLoop.
func (c *simCluster) stepTask(s simStep) map[string]interface{} {
	n := c.nodes[s.N]
	if n == nil || !n.up {
		return skipped("node down")
	}
	var t Task
	ev := map[string]interface{}{"kind": s.Task, "n": s.N}
	switch s.Task {
	case "changeConfig":
		if n.r.state != Leader {
			return skipped("not leader")
		}
		conf := Config{Nodes: map[uint64]Node{}, Index: n.r.configs.Latest.Index, Term: n.r.configs.Latest.Term}
		list, _ := s.Arg["nodes"].([]interface{})
		for _, x := range list {
			m := x.(map[string]interface{})
			id := uint64(m["id"].(float64))
			nd := Node{ID: id, Addr: simAddrOf(id), Voter: m["voter"].(bool), Action: parseAction(m["action"].(string))}
			if old, ok := n.r.configs.Latest.Nodes[id]; ok {
				nd.Addr, nd.Data = old.Addr, old.Data
			}
			conf.Nodes[id] = nd
		}
		t = ChangeConfig(conf)
		ev["nodes"] = projCfg(conf).Nodes
	case "takeSnapshot":
		thr := uint64(0)
		if v, ok := s.Arg["threshold"].(float64); ok {
			thr = uint64(v)
		}
		t = TakeSnapshot(thr)
		ev["threshold"] = thr
	case "transfer":
		if n.r.state != Leader || n.cur != Leader {
			return skipped("not leader")
		}
		target := uint64(0)
		if v, ok := s.Arg["target"].(float64); ok {
			target = uint64(v)
		}
		t = TransferLeadership(target, time.Hour)
		ev["target"] = target
	case "waitStable":
		t = WaitForStableConfig()
	default:
		return skipped("unknown task " + s.Task)
	}
	st := &simTask{id: 1000 + len(c.tasks) + 1, kind: s.Task, node: s.N, inc: n.inc, t: t}
	c.tasks = append(c.tasks, st)
	ev["task"] = st.id
	wasIdle := n.r.snapTakenCh == nil
	fsmBefore := len(n.r.fsm.ch)
	n.event(func() {
		n.r.executeTask(t)
		if n.r.state == Follower && n.f.electionAborted {
			n.f.resetTimer()
		}
	})
	if s.Task == "takeSnapshot" && wasIdle && n.up && n.r.snapTakenCh != nil {
		n.snapPhase = "start"
		if len(n.r.fsm.ch) > fsmBefore {
			n.snapPhase = "asked" // onTakeSnapshot queued the FSM request itself
		}
	}
	return ev
}

// snapshot goroutine ---------------------------------------------------------------

func (n *simNode) waitGate(point string) bool {
	deadline := time.Now().Add(simWait)
	for n.gate.parkedAt() != point {
		if len(n.r.snapTakenCh) > 0 || n.c.asyncCrash == n.id {
			return false
		}
		if at := n.gate.parkedAt(); at == "snapG.ask" && point != "snapG.ask" {
			n.gate.open() // the request is already queued (raft goroutine asked the FSM itself)
		}
		if time.Now().After(deadline) {
			panic(harnessStuck("snapshot goroutine did not reach " + point))
		}
		time.Sleep(20 * time.Microsecond)
	}
	return true
}

// after the FSM answered the snapshot request: the goroutine either parks at snapG.store or reports an error
func (n *simNode) snapAfterFsm() {
	if n.snapPhase != "asked" {
		return
	}
	if n.waitGate("snapG.store") {
		n.snapPhase = "got"
	} else {
		n.snapPhase = "err"
	}
}

func (c *simCluster) stepSnapG(id uint64, what string) map[string]interface{} {
	n := c.nodes[id]
	if n == nil || !n.up {
		return skipped("node down")
	}
	switch what {
	case "ask":
		if n.snapPhase != "start" {
			return skipped("no snapshot goroutine at start")
		}
		n.waitGate("snapG.ask")
		before := len(n.r.fsm.ch)
		n.gate.open()
		deadline := time.Now().Add(simWait)
		for len(n.r.fsm.ch) <= before {
			if time.Now().After(deadline) {
				panic(harnessStuck("snapshot goroutine did not ask the FSM"))
			}
			time.Sleep(20 * time.Microsecond)
		}
		n.snapPhase = "asked"
		return map[string]interface{}{"kind": "snapGAsk", "n": id}
	case "store":
		if n.snapPhase == "err" {
			n.snapPhase = "stored"
			return map[string]interface{}{"kind": "snapGStore", "n": id, "err": true}
		}
		if n.snapPhase != "got" {
			return skipped("snapshot goroutine not ready to store")
		}
		n.gate.open()
		deadline := time.Now().Add(simWait)
		for len(n.r.snapTakenCh) == 0 {
			if c.asyncCrash == id {
				// a crash point inside the snapshot goroutine fired: the process is dead (doStep buries the node)
				return map[string]interface{}{"kind": "snapGStore", "n": id, "crashed": true}
			}
			if time.Now().After(deadline) {
				panic(harnessStuck("snapshot goroutine did not finish"))
			}
			time.Sleep(20 * time.Microsecond)
		}
		n.snapPhase = "stored"
		return map[string]interface{}{"kind": "snapGStore", "n": id, "index": n.r.snaps.index}
	}
	return skipped("bad snapG step")
}

func (c *simCluster) stepSnapTaken(id uint64) map[string]interface{} {
	n := c.nodes[id]
	if n == nil || !n.up {
		return skipped("node down")
	}
	if n.snapPhase != "stored" || n.r.snapTakenCh == nil || len(n.r.snapTakenCh) == 0 {
		return skipped("no finished snapshot")
	}
	n.event(func() {
		t := <-n.r.snapTakenCh
		n.r.onSnapshotTaken(t)
	})
	n.snapPhase = "idle"
	return map[string]interface{}{"kind": "snapTaken", "n": id}
}

// completed tasks since the last record
func (c *simCluster) newlyDone() []interface{} {
	var out []interface{}
	for _, st := range c.tasks {
		if st.done {
			continue
		}
		select {
		case <-st.t.Done():
		default:
			continue
		}
		st.done = true
		m := map[string]interface{}{"task": st.id, "op": st.kind, "n": st.node, "val": st.val}
		if err := st.t.Err(); err != nil {
			m["err"] = errKind(err)
			if st.kind == "changeConfig" && m["err"] == "other" {
				m["err"] = "invalid" // request validation errors (fmt.Errorf texts)
			}
			m["errText"] = err.Error()
		} else {
			m["err"] = "ok"
			switch v := st.t.Result().(type) {
			case int:
				m["pos"] = v
			case []int:
				m["read"] = v
			case uint64:
				m["pos"] = int(v)
			}
		}
		st.res = fmt.Sprint(m["err"])
		out = append(out, m)
	}
	return out
}

// outcomeNow: what a client reading the completed task NOW is told
func (st *simTask) outcomeNow() string {
	if err := st.t.Err(); err != nil {
		k := errKind(err)
		if st.kind == "changeConfig" && k == "other" {
			k = "invalid"
		}
		return k
	}
	return "ok"
}

func errKind(err error) string {
	switch e := err.(type) {
	case NotLeaderError:
		if e.Lost {
			return "notLeaderLost"
		}
		return "notLeader"
	case InProgressError:
		return "inProgress"
	case TimeoutError:
		return "timeout"
	case OpError:
		return "opError"
	}
	switch err {
	case ErrServerClosed:
		return "serverClosed"
	case ErrNodeRemoved:
		return "nodeRemoved"
	case ErrNotCommitReady:
		return "notCommitReady"
	case ErrStaleConfig:
		return "staleConfig"
	case ErrQuorumUnreachable:
		return "quorumUnreachable"
	case ErrSnapshotThreshold:
		return "snapshotThreshold"
	case ErrNoUpdates:
		return "noUpdates"
	case ErrTransferNoVoter:
		return "noVoter"
	case ErrTransferSelf:
		return "transferSelf"
	case ErrTransferTargetNonvoter:
		return "targetNonvoter"
	case ErrTransferInvalidTarget:
		return "invalidTarget"
	}
	if strings.HasPrefix(err.Error(), "raft.transferLeadership: target rejected") {
		return "targetRejected"
	}
	return "other"
}

// projection ----------------------------------------------------------------------

type pNode struct {
	ID     uint64 `json:"id"`
	Voter  bool   `json:"voter"`
	Action string `json:"action"`
}

type pCfg struct {
	Index uint64  `json:"index"`
	Term  uint64  `json:"term"`
	Nodes []pNode `json:"nodes"`
}

type pEntry struct {
	I uint64  `json:"i"`
	T uint64  `json:"t"`
	Y string  `json:"y"`
	V int     `json:"v"`
	C []pNode `json:"c"`
}

type pSnap struct {
	Index uint64 `json:"index"`
	Term  uint64 `json:"term"`
	Cfg   pCfg   `json:"cfg"`
	Cmds  []int  `json:"cmds"`
}

type pFsm struct {
	Index uint64 `json:"index"`
	Term  uint64 `json:"term"`
	Cmds  []int  `json:"cmds"`
	Q     int    `json:"q"`
}

type pRepl struct {
	ID        uint64 `json:"id"`
	Next      uint64 `json:"next"`
	RMatch    uint64 `json:"rmatch"`
	Match     uint64 `json:"match"`
	NoContact bool   `json:"noContact"`
	ViewPrev  uint64 `json:"viewPrev"`
	ViewLast  uint64 `json:"viewLast"`
	RCommit   uint64 `json:"rcommit"`
	Voter     bool   `json:"voter"`
	Mode      string `json:"mode"`
	Conn      int    `json:"conn"`
	Failures  uint64 `json:"failures"`
	Out       int    `json:"out"`
	Round     uint64 `json:"round"`
	RoundLast uint64 `json:"roundLast"`
	RoundDone bool   `json:"roundDone"`
	RoundStale bool  `json:"roundStale"`
	RemoveLTE uint64 `json:"removeLTE"`
	LuCh      int    `json:"luCh"`
}

type pNe struct {
	I uint64 `json:"i"`
	Y string `json:"y"`
}

type pLdr struct {
	On        bool    `json:"on"`
	Start     uint64  `json:"start"`
	NumVoters int     `json:"numVoters"`
	SelfVoter bool    `json:"selfVoter"`
	RemoveLTE uint64  `json:"removeLTE"`
	NeQ       []pNe   `json:"neQ"`
	Repls     []pRepl `json:"repls"`
	Xfer      bool    `json:"xfer"`
	XferTerm  uint64  `json:"xferTerm"`
	XferTo    uint64  `json:"xferTo"`
	XferResp  bool    `json:"xferResp"`
	XferNt    bool    `json:"xferNt"`
	ReplQ     int     `json:"replQ"`
}

type pDisk struct {
	Term uint64 `json:"term"`
	Vote uint64 `json:"vote"`
}

type pNodeState struct {
	ID          uint64   `json:"id"`
	Up          bool     `json:"up"`
	Inc         int      `json:"inc"`
	Term        uint64   `json:"term"`
	Vote        uint64   `json:"vote"`
	State       string   `json:"state"`
	Leader      uint64   `json:"leader"`
	Commit      uint64   `json:"commit"`
	LogPrev     uint64   `json:"logPrev"`
	Last        uint64   `json:"last"`
	LastTerm    uint64   `json:"lastTerm"`
	Log         []pEntry `json:"log"`
	Synced      uint64   `json:"synced"`
	Snap        pSnap    `json:"snap"`
	CfgC        pCfg     `json:"cfgC"`
	CfgL        pCfg     `json:"cfgL"`
	Aborted     bool     `json:"aborted"`
	TimerOn     bool     `json:"timerOn"`
	VotesNeeded int      `json:"votesNeeded"`
	CndTransfer bool     `json:"cndTransfer"`
	RespLen     int      `json:"respLen"`
	Fsm         pFsm     `json:"fsm"`
	Ldr         pLdr     `json:"ldr"`
	Disk        pDisk    `json:"disk"`
	Bnds        []uint64 `json:"bnds"`
	SnapG       string   `json:"snapG"`
	Died        string   `json:"died"`
	Stopped     string   `json:"stopped"`
}

func actionName(a Action) string { return a.String() }

func projCfg(c Config) pCfg {
	p := pCfg{Index: c.Index, Term: c.Term, Nodes: []pNode{}}
	ids := make([]uint64, 0, len(c.Nodes))
	for id := range c.Nodes {
		ids = append(ids, id)
	}
	sort.Slice(ids, func(i, j int) bool { return ids[i] < ids[j] })
	for _, id := range ids {
		n := c.Nodes[id]
		p.Nodes = append(p.Nodes, pNode{ID: id, Voter: n.Voter, Action: actionName(n.Action)})
	}
	return p
}

func typName(t entryType) string {
	switch t {
	case entryNop:
		return "nop"
	case entryUpdate:
		return "upd"
	case entryConfig:
		return "cfg"
	case entryRead:
		return "read"
	case entryDirtyRead:
		return "dirty"
	case entryBarrier:
		return "barrier"
	}
	return "other"
}

func (c *simCluster) project(n *simNode) pNodeState {
	if !n.up {
		if n.downProj != nil {
			p := *n.downProj
			p.Died, p.Stopped = n.died, n.stopped
			p.Disk = readDisk(n.dir)
			p.Term, p.Vote = p.Disk.Term, p.Disk.Vote
			return p
		}
		d := readDisk(n.dir)
		return pNodeState{ID: n.id, Inc: n.inc, State: "D", Log: []pEntry{}, Fsm: pFsm{Cmds: []int{}}, Died: n.died, Stopped: n.stopped,
			Disk: d, Term: d.Term, Vote: d.Vote, Snap: pSnap{Cfg: pCfg{Nodes: []pNode{}}, Cmds: []int{}}, Bnds: []uint64{}, SnapG: "idle", CfgC: pCfg{Nodes: []pNode{}}, CfgL: pCfg{Nodes: []pNode{}},
			Ldr: pLdr{NeQ: []pNe{}, Repls: []pRepl{}}}
	}
	r := n.r
	p := pNodeState{ID: n.id, Up: true, Inc: n.inc, Term: r.term, Vote: r.votedFor, State: string(r.state), Leader: r.leader,
		Commit: r.commitIndex, LogPrev: r.log.PrevIndex(), Last: r.lastLogIndex, LastTerm: r.lastLogTerm,
		Log: []pEntry{}, Synced: r.log.VerifSyncedIndex(), Aborted: n.f.electionAborted, TimerOn: r.timer.active,
		VotesNeeded: n.cnd.votesNeeded, CndTransfer: n.cnd.transfer}
	if n.cnd.respCh != nil {
		p.RespLen = len(n.cnd.respCh)
	}
	for i := r.log.PrevIndex() + 1; i <= r.log.LastIndex(); i++ {
		e := &entry{}
		var perr interface{}
		func() {
			// a node that died inside a log operation can leave the in-memory log unreadable: project what is readable
			defer func() { perr = recover() }()
			if err := r.storage.getEntry(i, e); err != nil {
				perr = err
			}
		}()
		if perr != nil {
			if n.died == "" && !c.crashFired {
				panic(harnessStuck(fmt.Sprintf("projection: getEntry(%d): %v", i, perr)))
			}
			c.note(map[string]interface{}{"kind": "projectionCut", "n": n.id, "at": i, "err": fmt.Sprintf("%v", perr)})
			break
		}
		pe := pEntry{I: e.index, T: e.term, Y: typName(e.typ), C: []pNode{}}
		switch e.typ {
		case entryUpdate:
			pe.V = parseCmd(e.data)
		case entryConfig:
			var cfg Config
			if err := cfg.decode(e); err == nil {
				pe.C = projCfg(cfg).Nodes
			}
		}
		p.Log = append(p.Log, pe)
	}
	meta, err := r.snaps.meta()
	if err == nil {
		p.Snap = pSnap{Index: r.snaps.index, Term: r.snaps.term, Cfg: projCfg(meta.config), Cmds: readSnapCmds(r.snaps.dir, r.snaps.index)}
	} else {
		p.Snap = pSnap{Index: r.snaps.index, Term: r.snaps.term, Cfg: pCfg{Nodes: []pNode{}}, Cmds: []int{}}
	}
	p.Bnds = []uint64{}
	for _, sg := range r.log.VerifSegments() {
		p.Bnds = append(p.Bnds, uint64(sg[0]))
	}
	p.SnapG = n.snapPhase
	p.CfgC, p.CfgL = projCfg(r.configs.Committed), projCfg(r.configs.Latest)
	p.Fsm = pFsm{Index: r.fsm.index, Term: r.fsm.term, Cmds: append([]int{}, n.fsm.cmds...), Q: len(r.fsm.ch)}
	p.Ldr = pLdr{NeQ: []pNe{}, Repls: []pRepl{}}
	if n.cur == Leader && r.state == Leader {
		l := n.l
		p.Ldr.On = true
		p.Ldr.Start, p.Ldr.NumVoters, p.Ldr.SelfVoter, p.Ldr.RemoveLTE = l.startIndex, l.numVoters, l.node.Voter, l.removeLTE
		for ne := l.neHead; ne != nil; ne = ne.next {
			p.Ldr.NeQ = append(p.Ldr.NeQ, pNe{I: ne.index, Y: typName(ne.typ)})
		}
		p.Ldr.Xfer = l.transfer.inProgress()
		if p.Ldr.Xfer {
			p.Ldr.XferTerm, p.Ldr.XferTo = l.transfer.term, l.transfer.target
			p.Ldr.XferResp, p.Ldr.XferNt = l.transfer.respCh != nil, l.transfer.newTermTimer.active
		}
		if l.replUpdateCh != nil {
			p.Ldr.ReplQ = len(l.replUpdateCh)
		}
		for _, id := range sortedIDs(l.repls) {
			repl := l.repls[id]
			pr := pRepl{ID: id, Next: repl.nextIndex, RMatch: repl.matchIndex, Match: repl.status.matchIndex,
				NoContact: !repl.status.noContact.IsZero(), Voter: repl.node.Voter, RemoveLTE: repl.status.removeLTE,
				LuCh: len(repl.leaderUpdateCh)}
			if repl.log != nil {
				pr.ViewPrev, pr.ViewLast = repl.log.PrevIndex(), repl.log.LastIndex()
			}
			if rd := repl.status.round; rd != nil {
				pr.Round, pr.RoundLast, pr.RoundDone = rd.Ordinal, rd.LastIndex, rd.finished()
				pr.RoundStale = rd.finished() && rd.End.Before(rd.Start)
			}
			for _, sr := range c.repls {
				if sr.r == repl {
					pr.Mode, pr.Failures = sr.mode, sr.failures
					if sr.req != nil {
						pr.RCommit = sr.req.ldrCommitIndex
					}
					if sr.conn != nil {
						pr.Conn = sr.conn.id
						pr.Out = len(sr.conn.reqs) + len(sr.conn.resps)
					}
				}
			}
			p.Ldr.Repls = append(p.Ldr.Repls, pr)
		}
	}
	p.Disk = readDisk(n.dir)
	p.Died, p.Stopped = n.died, n.stopped
	return p
}

func readSnapCmds(dir string, index uint64) []int {
	cmds := []int{}
	if index == 0 {
		return cmds
	}
	b, err := ioutil.ReadFile(snapFile(dir, index))
	if err != nil {
		return cmds
	}
	_ = json.Unmarshal(b, &cmds)
	if cmds == nil {
		cmds = []int{}
	}
	return cmds
}

func readDisk(dir string) pDisk {
	v, err := openValue(dir, ".term")
	if err != nil {
		return pDisk{}
	}
	return pDisk{Term: v.v1, Vote: v.v2}
}

// net summary: in-flight vote / timeout-now RPCs and replication connections
func (c *simCluster) projectNet() map[string]interface{} {
	rpcs := []interface{}{}
	for _, rpc := range c.rpcs {
		if rpc.phase == 2 {
			continue
		}
		m := map[string]interface{}{"kind": rpc.kind, "from": rpc.from, "to": rpc.to, "term": rpc.term, "transfer": rpc.transfer,
			"phase": rpc.phase, "lastIndex": rpc.lastIdx, "lastTerm": rpc.lastTerm}
		if rpc.phase == 1 {
			m["result"] = resultName(rpc.result)
			m["respTerm"] = rpc.respTerm
		}
		rpcs = append(rpcs, m)
	}
	conns := []interface{}{}
	add := func(rc *replConn, cur bool) {
		if len(rc.reqs)+len(rc.resps) == 0 && !cur {
			return
		}
		reqs := []interface{}{}
		for _, f := range rc.reqs {
			reqs = append(reqs, map[string]interface{}{"kind": f.kind, "term": f.term, "prev": f.prev, "prevTerm": f.prevT, "n": f.n, "commit": f.commit, "snapIndex": f.snapIdx})
		}
		resps := []interface{}{}
		for _, f := range rc.resps {
			resps = append(resps, map[string]interface{}{"kind": f.kind, "result": resultName(f.result), "respTerm": f.respTerm, "respLast": f.respLast, "reqLast": f.reqLast})
		}
		conns = append(conns, map[string]interface{}{"id": rc.id, "from": rc.from, "to": rc.to, "cur": cur, "reqs": reqs, "resps": resps})
	}
	for _, sr := range c.repls {
		if sr.conn != nil && !sr.ended {
			add(sr.conn, true)
		} else if sr.conn != nil {
			add(sr.conn, false)
		}
	}
	for _, oc := range c.orphans {
		add(oc, false)
	}
	return map[string]interface{}{"rpcs": rpcs, "conns": conns}
}

func (c *simCluster) record(stim interface{}, ev map[string]interface{}) {
	c.seq++
	if c.rec == nil {
		return
	}
	nodes := []pNodeState{}
	for _, id := range c.ids {
		nodes = append(nodes, c.project(c.nodes[id]))
	}
	extra := c.evExtra
	if extra == nil {
		extra = []map[string]interface{}{}
	}
	done := c.newlyDone()
	if done == nil {
		done = []interface{}{}
	}
	if ev != nil {
		if c.acts == nil {
			c.acts = []map[string]interface{}{}
		}
		ev["acts"] = c.acts
	}
	rec := map[string]interface{}{"sched": c.name, "seq": c.seq, "stim": stim, "ev": ev, "notes": extra, "done": done, "nodes": nodes, "net": c.projectNet()}
	if err := c.rec.Encode(rec); err != nil {
		panic(harnessStuck(err.Error()))
	}
}
