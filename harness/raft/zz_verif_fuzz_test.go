package raft

// Layer-1 randomized driver: instead of replaying a TLC-generated schedule it
// chooses the next stimulus itself, weighted towards progress, from what the
// REAL cluster currently offers (deliverable messages, armed timers, ...).
// The recorded behaviour is checked like every other one: trace validation
// against Raft.tla (is it a behaviour of the specification?) and observation
// checking (do the property operators hold on it?).

import (
	"bufio"
	"encoding/json"
	"fmt"
	"math/rand"
	"os"
	"sort"
	"testing"
)

type fuzzSpec struct {
	Seed      int64    `json:"seed"`
	Runs      int      `json:"runs"`
	Steps     int      `json:"steps"`
	Nodes     []uint64 `json:"nodes"`
	Voters    []uint64 `json:"voters"`
	Nonvoters []uint64 `json:"nonvoters"`
	Eager     simEager `json:"eager"`
	Crash     float64  `json:"crash"`    // weight of crash steps (0 = none)
	Reconfig  float64  `json:"reconfig"` // weight of membership requests
	Snapshot  float64  `json:"snapshot"` // weight of snapshot requests
	Fail      float64  `json:"fail"`     // weight of connection failures
	MaxCmds   int      `json:"maxCmds"`
	Fair      bool     `json:"fair"`     // after the random part: heal everything and continue with a fair schedule (C17 b)
	Reads     float64  `json:"reads"`     // weight of read / barrier / dirty-read client operations
	Partition float64  `json:"partition"` // weight of isolating one node for a while (dials and RPCs to/from it fail, nothing is delivered)
	Transfer  float64  `json:"transfer"` // weight of leadership-transfer requests (and of their timers)
	CrashPts  float64  `json:"crashPts"` // weight of arming a crash point inside a later storage-mutating step
	Name      string   `json:"name"`
	// drift-directed search: first replay this stimulus prefix (a recorded run up to the step where the real code
	// left the specification), then continue randomly from the state reached
	Prefix []simStep `json:"prefix,omitempty"`
}

// every storage-mutating hook point of the handlers (value files, log segments, snapshot files)
var simCrashPoints = []string{"value.renamed", "value.set", "append.truncated", "append.beforeFlush", "append.flushed",
	"snap.published", "snap.logCleared", "leader.flushed", "snapsink.renamed",
	"seg.sync.data", "seg.sync.header", "seg.sync.done", "seg.removeGTE.header", "seg.append", "seg.remove.closed", "seg.remove.done",
	"seg.create.opened", "seg.create.truncated", "seg.create.synced", "log.rollover"}

func choiceKey(s simStep) string {
	op := ""
	if len(s.Ops) > 0 {
		op = s.Ops[0].Op
	}
	return fmt.Sprintf("%s|%d|%d|%d|%d|%d|%d|%d|%d|%s|%v|%s", s.K, s.N, s.From, s.To, s.I, s.J, s.Peer, s.Term, s.Conn, s.Task, s.Fail, op)
}

type fuzzChoice struct {
	w float64
	s simStep
}

func (c *simCluster) fuzzChoices(f *fuzzSpec, rng *rand.Rand, cmds *int, cfgReqs *int) []fuzzChoice {
	var out []fuzzChoice
	add := func(w float64, s simStep) {
		if w > 0 {
			out = append(out, fuzzChoice{w, s})
		}
	}
	leaderUp := false
	for _, n := range c.nodes {
		if n.up && n.cur == Leader && n.r.state == Leader {
			leaderUp = true
		}
	}
	for _, id := range c.ids {
		n := c.nodes[id]
		if !n.up {
			add(3, simStep{K: "restart", N: id})
			continue
		}
		r := n.r
		if r.timer.active {
			w := 6.0
			if leaderUp {
				w = 0.4
			}
			add(w, simStep{K: "timeout", N: id})
		}
		if n.cur == Candidate && n.cnd.respCh != nil && len(n.cnd.respCh) > 0 {
			add(20, simStep{K: "voteResp", From: id, To: id, Term: r.term})
		}
		if f.Crash > 0 {
			add(f.Crash, simStep{K: "crash", N: id})
		}
		if f.CrashPts > 0 && (c.crashAt == nil || (!c.crashFired && c.seq-c.armSeq > 25)) {
			pt := simCrashPoints[rng.Intn(len(simCrashPoints))]
			add(f.CrashPts, simStep{K: "crash", N: id, At: &struct {
				Point string `json:"point"`
				Hit   int    `json:"hit"`
			}{pt, 1 + rng.Intn(2)}})
		}
		if r.leader != 0 && r.leader != id && n.peers[r.leader] {
			add(0.2, simStep{K: "disconnected", N: id, Peer: r.leader})
		}
		if !c.eager.Fsm && len(r.fsm.ch) > 0 {
			add(8, simStep{K: "fsm", N: id})
		}
		// snapshots
		switch n.snapPhase {
		case "idle":
			if f.Snapshot > 0 && r.fsm.index > r.snaps.index {
				add(f.Snapshot, simStep{K: "task", N: id, Task: "takeSnapshot", Arg: map[string]interface{}{"threshold": float64(0)}})
			}
		case "start":
			add(8, simStep{K: "snapGAsk", N: id})
		case "got", "err":
			add(8, simStep{K: "snapGStore", N: id})
		case "stored":
			add(8, simStep{K: "snapTaken", N: id})
		}
		if n.cur == Leader && r.state == Leader {
			if *cmds < f.MaxCmds {
				add(5, simStep{K: "client", N: id, Ops: []struct {
					Op string `json:"op"`
					ID int    `json:"id,omitempty"`
				}{{Op: "update", ID: *cmds + 1}}})
			}
			if !c.eager.Ldr && n.l.replUpdateCh != nil && len(n.l.replUpdateCh) > 0 {
				add(10, simStep{K: "ldrUpdates", N: id})
			}
			for _, j := range sortedIDs(n.l.repls) {
				sr := c.findRepl(id, j)
				if sr == nil {
					continue
				}
				if c.isolated[id] || c.isolated[j] {
					// partitioned pair: nothing is delivered; dials fail; open connections run into their deadlines
					if sr.conn == nil {
						add(3, simStep{K: "replSend", I: id, J: j, Fail: true})
					} else {
						add(4, simStep{K: "replFail", I: id, J: j})
					}
					continue
				}
				if sr.snapBusy != nil {
					if len(sr.conn.reqs) > 0 {
						add(10, simStep{K: "appendReq", I: id, J: j})
					}
					if len(sr.conn.resps) > 0 {
						add(10, simStep{K: "appendResp", I: id, J: j})
					}
					add(f.Fail+0.3, simStep{K: "replFail", I: id, J: j})
					continue
				}
				if sr.conn == nil {
					add(4, simStep{K: "replSend", I: id, J: j})
					continue
				}
				out := len(sr.conn.reqs) + len(sr.conn.resps)
				switch sr.mode {
				case modeProbe:
					if out == 0 {
						add(6, simStep{K: "replSend", I: id, J: j})
					}
				case modePipe:
					rp := sr.r
					cw := sr.canWrite || (c.eager.Poll && len(rp.leaderUpdateCh) > 0)
					if out < 3 && (cw || rp.nextIndex <= rp.ldrLastIndex || out == 0) && (rp.nextIndex <= rp.ldrLastIndex || rp.node.Voter || cw) {
						w := 2.0
						if rp.nextIndex <= rp.ldrLastIndex || len(rp.leaderUpdateCh) > 0 {
							w = 8
						}
						add(w, simStep{K: "replSend", I: id, J: j})
					}
				}
				if len(sr.conn.reqs) > 0 {
					add(10, simStep{K: "appendReq", I: id, J: j})
				}
				if len(sr.conn.resps) > 0 {
					add(10, simStep{K: "appendResp", I: id, J: j})
				}
				if f.Fail > 0 {
					add(f.Fail, simStep{K: "replFail", I: id, J: j})
				}
				if !c.eager.Poll && len(sr.r.leaderUpdateCh) > 0 {
					add(5, simStep{K: "replPoll", I: id, J: j})
				}
			}
			if f.Transfer > 0 {
				tr := &n.l.transfer
				if !tr.inProgress() {
					// any target (0), a member, or occasionally something that is not a legal target
					tgt := uint64(0)
					switch rng.Intn(4) {
					case 1, 2:
						tgt = c.ids[rng.Intn(len(c.ids))]
					case 3:
						if rng.Intn(3) == 0 {
							tgt = 99
						}
					}
					add(f.Transfer, simStep{K: "task", N: id, Task: "transfer", Arg: map[string]interface{}{"target": float64(tgt)}})
				} else {
					add(0.3, simStep{K: "xferTimeout", N: id})
					if tr.newTermTimer.active {
						add(2, simStep{K: "newTermTimeout", N: id})
					}
				}
			}
			if f.Reconfig > 0 && *cfgReqs < 6 {
				if st := c.fuzzConfigRequest(n, rng); st != nil {
					add(f.Reconfig, *st)
				}
			}
		} else if *cmds < f.MaxCmds {
			add(0.1, simStep{K: "client", N: id, Ops: []struct {
				Op string `json:"op"`
				ID int    `json:"id,omitempty"`
			}{{Op: "update", ID: *cmds + 1}}})
		}
		if f.Reads > 0 && *cmds < f.MaxCmds {
			ldr := n.cur == Leader && r.state == Leader
			for _, op := range []string{"read", "barrier", "dirty"} {
				w := f.Reads
				if !ldr && op != "dirty" {
					w = f.Reads / 20 // answered with NotLeaderError
				}
				add(w, simStep{K: "client", N: id, Ops: []struct {
					Op string `json:"op"`
					ID int    `json:"id,omitempty"`
				}{{Op: op, ID: *cmds + 1}}})
			}
		}
	}
	for _, rpc := range c.rpcs {
		cut := c.isolated[rpc.from] || c.isolated[rpc.to]
		switch rpc.phase {
		case 0:
			if cut {
				add(6, simStep{K: rpc.kind + "Req", From: rpc.from, To: rpc.to, Term: rpc.term, Fail: true})
			} else {
				add(10, simStep{K: rpc.kind + "Req", From: rpc.from, To: rpc.to, Term: rpc.term})
			}
		case 1:
			if !cut {
				add(10, simStep{K: rpc.kind + "Resp", From: rpc.to, To: rpc.from, Term: rpc.term})
			}
		}
	}
	if f.Partition > 0 {
		if len(c.isolated) == 0 {
			for _, id := range c.ids {
				add(f.Partition/float64(len(c.ids)), simStep{K: "_isolate", N: id})
			}
		} else {
			add(f.Partition*1.5, simStep{K: "_rejoin"})
		}
	}
	for _, oc := range c.orphans {
		if c.isolated[oc.from] || c.isolated[oc.to] {
			continue
		}
		if len(oc.reqs) > 0 {
			add(1.5, simStep{K: "appendReq", I: oc.from, J: oc.to, Conn: oc.id})
		}
	}
	return out
}

// a random legal-looking membership request: one or two edits of the latest configuration
func (c *simCluster) fuzzConfigRequest(n *simNode, rng *rand.Rand) *simStep {
	cur := n.r.configs.Latest
	nodes := map[uint64]pNode{}
	for id, nd := range cur.Nodes {
		nodes[id] = pNode{ID: id, Voter: nd.Voter, Action: nd.Action.String()}
	}
	edits := 1 + rng.Intn(2)
	for e := 0; e < edits; e++ {
		id := c.ids[rng.Intn(len(c.ids))]
		if nd, ok := nodes[id]; ok {
			var acts []string
			if nd.Voter {
				acts = []string{"demote", "remove", "forceRemove"}
			} else {
				acts = []string{"promote", "remove", "forceRemove"}
			}
			nd.Action = acts[rng.Intn(len(acts))]
			nodes[id] = nd
		} else {
			act := "none"
			if rng.Intn(2) == 0 {
				act = "promote"
			}
			nodes[id] = pNode{ID: id, Voter: false, Action: act}
		}
	}
	var list []interface{}
	for _, id := range c.ids {
		if nd, ok := nodes[id]; ok {
			list = append(list, map[string]interface{}{"id": float64(id), "voter": nd.Voter, "action": nd.Action})
		}
	}
	return &simStep{K: "task", N: n.id, Task: "changeConfig", Arg: map[string]interface{}{"nodes": list}}
}

func runFuzz(f fuzzSpec, run int, out *bufio.Writer) (err error) {
	dir := mustTempDir("fuzz")
	defer os.RemoveAll(dir)
	defer func() {
		if v := recover(); v != nil {
			if hs, ok := v.(harnessStuck); ok {
				err = fmt.Errorf("harness stuck in fuzz run %d: %s", run, string(hs))
				return
			}
			panic(v)
		}
	}()
	rng := rand.New(rand.NewSource(f.Seed*100003 + int64(run)))
	name := fmt.Sprintf("%s-%d-%d", f.Name, f.Seed, run)
	if f.Nonvoters == nil {
		f.Nonvoters = []uint64{}
	}
	c := newSimCluster(name, dir, f.Nodes, f.Voters, f.Nonvoters, f.Eager, out)
	defer c.close()
	c.settle()
	c.record(map[string]interface{}{"k": "init"}, map[string]interface{}{"kind": "init", "nodes": f.Nodes, "voters": f.Voters, "nonvoters": f.Nonvoters, "eager": f.Eager})
	cmds, cfgReqs := 0, 0
	for _, st := range f.Prefix {
		if st.K == "final" || st.K == "fairCheck" || st.K == "shutdown" {
			continue
		}
		if st.K == "client" {
			for _, op := range st.Ops {
				if op.ID > cmds {
					cmds = op.ID
				}
			}
		}
		if st.K == "task" && st.Task == "changeConfig" {
			cfgReqs++
		}
		c.do(st)
	}
	for step := 0; step < f.Steps; step++ {
		ch := c.fuzzChoices(&f, rng, &cmds, &cfgReqs)
		if len(ch) == 0 {
			break
		}
		// canonical order: Go's map iteration (startElection, leader.init) must not influence which choice a random number selects
		sort.SliceStable(ch, func(i, j int) bool { return choiceKey(ch[i].s) < choiceKey(ch[j].s) })
		total := 0.0
		for _, x := range ch {
			total += x.w
		}
		pick := rng.Float64() * total
		var st simStep
		for _, x := range ch {
			pick -= x.w
			st = x.s
			if pick <= 0 {
				break
			}
		}
		if st.K == "_isolate" {
			c.isolated = map[uint64]bool{st.N: true}
			continue
		}
		if st.K == "_rejoin" {
			c.isolated = map[uint64]bool{}
			continue
		}
		if st.K == "client" {
			cmds++
		}
		if st.K == "task" && st.Task == "changeConfig" {
			cfgReqs++
		}
		ev := c.doStep(st)
		c.record(st, ev)
	}
	c.isolated = map[uint64]bool{}
	if f.Fair {
		c.fairContinue(&cmds)
	}
	c.finish()
	return nil
}

func (c *simCluster) do(st simStep) map[string]interface{} {
	ev := c.doStep(st)
	c.record(st, ev)
	return ev
}

func upd(id uint64, cmd int) simStep {
	return simStep{K: "client", N: id, Ops: []struct {
		Op string `json:"op"`
		ID int    `json:"id,omitempty"`
	}{{Op: "update", ID: cmd}}}
}

// fairContinue: faults stop (every node restarted, no more failures) and every enabled protocol step is taken
// round-robin; timeouts fire one node at a time, only while nobody leads. The cluster must elect a leader,
// commit a fresh update and bring every state machine up to date within a bounded number of rounds.
func (c *simCluster) fairContinue(cmds *int) {
	c.crashAt, c.crashFired = nil, false
	for _, id := range c.ids {
		if n := c.nodes[id]; !n.up && n.stopped == "" {
			c.do(simStep{K: "restart", N: id})
		}
	}
	submitted, fresh := false, 0
	converged, rounds := false, 0
	turn := 0
	for rounds = 1; rounds <= 60 && !converged; rounds++ {
		progress := false
		// everything in flight is delivered
		for pass := 0; pass < 4; pass++ {
			for _, rpc := range append([]*simRPC{}, c.rpcs...) {
				if rpc.phase == 0 {
					c.do(simStep{K: rpc.kind + "Req", From: rpc.from, To: rpc.to, Term: rpc.term})
					progress = true
				} else if rpc.phase == 1 {
					c.do(simStep{K: rpc.kind + "Resp", From: rpc.to, To: rpc.from, Term: rpc.term})
					progress = true
				}
			}
			for _, id := range c.ids {
				n := c.nodes[id]
				if n.up && n.cur == Candidate && n.cnd.respCh != nil && len(n.cnd.respCh) > 0 {
					c.do(simStep{K: "voteResp", From: id, To: id, Term: n.r.term})
					progress = true
				}
				switch n.snapPhase {
				case "start":
					c.do(simStep{K: "snapGAsk", N: id})
				case "got", "err":
					c.do(simStep{K: "snapGStore", N: id})
				case "stored":
					c.do(simStep{K: "snapTaken", N: id})
				}
			}
		}
		var ldr *simNode
		for _, id := range c.ids {
			if n := c.nodes[id]; n.up && n.cur == Leader && n.r.state == Leader {
				ldr = n
			}
		}
		// an update that failed (leadership lost meanwhile) is submitted again: the property asks for a NEW update to commit
		if submitted && len(c.tasks) > 0 {
			last := c.tasks[len(c.tasks)-1]
			select {
			case <-last.t.Done():
				if last.t.Err() != nil {
					submitted = false
				}
			default:
			}
		}
		if ldr != nil {
			if !submitted && ldr.r.commitIndex >= ldr.l.startIndex {
				*cmds++
				fresh = *cmds
				c.do(upd(ldr.id, fresh))
				submitted = true
			}
			for _, j := range sortedIDs(ldr.l.repls) {
				for k := 0; k < 3; k++ {
					sr := c.findRepl(ldr.id, j)
					if sr == nil || !ldr.up || ldr.cur != Leader {
						break
					}
					if sr.conn != nil && sr.conn.peerDead {
						// the peer process behind this connection died: reads/writes on it fail (connection reset)
						c.do(simStep{K: "replFail", I: ldr.id, J: j})
					} else if sr.conn != nil && len(sr.conn.reqs) > 0 {
						c.do(simStep{K: "appendReq", I: ldr.id, J: j})
					} else if sr.conn != nil && len(sr.conn.resps) > 0 {
						c.do(simStep{K: "appendResp", I: ldr.id, J: j})
					} else if sr.snapBusy == nil {
						c.do(simStep{K: "replSend", I: ldr.id, J: j})
					} else {
						break
					}
				}
			}
		} else {
			// nobody leads: one node's election timer fires
			for k := 0; k < len(c.ids); k++ {
				id := c.ids[(turn+k)%len(c.ids)]
				if n := c.nodes[id]; n.up && n.r.timer.active {
					c.do(simStep{K: "timeout", N: id})
					turn = (turn + k + 1) % len(c.ids)
					break
				}
			}
		}
		_ = progress
		converged = c.convergedOn(fresh)
	}
	c.do(simStep{K: "fairCheck", Arg: map[string]interface{}{"fresh": fresh, "rounds": rounds}})
}

// convergedOn: one leader, and the fresh update applied on every running member of its configuration
func (c *simCluster) convergedOn(fresh int) bool {
	var ldr *simNode
	for _, id := range c.ids {
		if n := c.nodes[id]; n.up && n.cur == Leader && n.r.state == Leader {
			ldr = n
		}
	}
	if ldr == nil || fresh == 0 {
		return false
	}
	for _, id := range c.ids {
		n := c.nodes[id]
		if !n.up {
			continue
		}
		if _, member := ldr.r.configs.Latest.Nodes[id]; !member {
			continue
		}
		has := false
		for _, x := range n.fsm.cmds {
			if x == fresh {
				has = true
			}
		}
		if !has {
			return false
		}
	}
	return true
}

// stuckWhy: diagnosis of a cluster that did not converge (used to tell a recorded finding from a new one)
func (c *simCluster) stuckWhy() string {
	// a running node whose latest, still uncommitted configuration no longer lists it as voter may not campaign, yet the
	// voters of the older configuration cannot win without its vote because its log is ahead of theirs
	for _, id := range c.ids {
		x := c.nodes[id]
		if !x.up || x.r.configs.Latest.isVoter(id) || x.r.configs.IsCommitted() {
			continue
		}
		ahead := true
		others := 0
		for _, jd := range c.ids {
			y := c.nodes[jd]
			if jd == id || !y.up || !y.r.configs.Latest.isVoter(jd) {
				continue
			}
			others++
			if y.r.lastLogTerm > x.r.lastLogTerm || (y.r.lastLogTerm == x.r.lastLogTerm && y.r.lastLogIndex >= x.r.lastLogIndex) {
				ahead = false
			}
		}
		if ahead && others > 0 {
			return "uncommittedSelfRemoval"
		}
	}
	return "unknown"
}

// stepFairCheck: the verdict of a fair, fault-free continuation (C17): judged on the state the steps produced
func (c *simCluster) stepFairCheck(s simStep) map[string]interface{} {
	fresh := 0
	if v, ok := s.Arg["fresh"]; ok {
		switch x := v.(type) {
		case int:
			fresh = x
		case float64:
			fresh = int(x)
		}
	}
	ev := map[string]interface{}{"kind": "fairCheck", "fresh": fresh, "rounds": s.Arg["rounds"], "converged": c.convergedOn(fresh)}
	if ev["converged"] == false {
		ev["why"] = c.stuckWhy()
	}
	return ev
}

// finish: every running node is shut down (stateLoop returns: roles released, pending tasks answered with
// ErrServerClosed); then every submitted task must be complete, exactly once.
func (c *simCluster) finish() {
	for _, id := range c.ids {
		if n := c.nodes[id]; n.up {
			// Shutdown waits for a snapshot in progress: let it complete first (same order as Raft.release)
			for k := 0; k < 64 && n.up && n.snapPhase != "idle"; k++ {
				switch n.snapPhase {
				case "start":
					c.do(simStep{K: "snapGAsk", N: id})
				case "asked":
					c.do(simStep{K: "fsm", N: id})
				case "got", "err":
					c.do(simStep{K: "snapGStore", N: id})
				case "stored":
					c.do(simStep{K: "snapTaken", N: id})
				}
			}
		}
		if n := c.nodes[id]; n.up {
			c.do(simStep{K: "shutdown", N: id})
		}
	}
	c.do(simStep{K: "final"})
}

// stepFinal: after every node was shut down, every task an incarnation accepted must be complete
func (c *simCluster) stepFinal() map[string]interface{} {
	pending := []interface{}{}
	for _, st := range c.tasks {
		select {
		case <-st.t.Done():
		default:
			// a task is owed an answer only by the incarnation that accepted it, and only if that incarnation
			// stopped in an orderly way (a killed process answers nobody)
			if n := c.nodes[st.node]; n != nil && n.inc == st.inc && n.died == "" && n.stopped != "" {
				pending = append(pending, map[string]interface{}{"task": st.id, "op": st.kind, "n": st.node})
			}
		}
	}
	// a completed task keeps the outcome it completed with (each task completes exactly once)
	changed := []interface{}{}
	for _, st := range c.tasks {
		if st.done {
			if now := st.outcomeNow(); now != st.res {
				changed = append(changed, map[string]interface{}{"task": st.id, "op": st.kind, "n": st.node, "first": st.res, "now": now})
			}
		}
	}
	return map[string]interface{}{"kind": "final", "pending": pending, "changed": changed}
}

func TestVerifFuzz(t *testing.T) {
	specTxt, outFile := os.Getenv("VERIF_FUZZ"), os.Getenv("VERIF_OUT")
	if specTxt == "" || outFile == "" {
		t.Skip("VERIF_FUZZ / VERIF_OUT not set")
	}
	var f fuzzSpec
	if err := json.Unmarshal([]byte(specTxt), &f); err != nil {
		t.Fatal(err)
	}
	of, err := os.Create(outFile)
	if err != nil {
		t.Fatal(err)
	}
	defer of.Close()
	out := bufio.NewWriterSize(of, 1<<20)
	defer out.Flush()
	first := 0
	if v := os.Getenv("VERIF_FUZZ_FIRST"); v != "" {
		fmt.Sscanf(v, "%d", &first)
	}
	for run := first; run < first+f.Runs; run++ {
		if err := runFuzz(f, run, out); err != nil {
			fmt.Fprintln(os.Stderr, "HARNESS-ERROR", err)
			out.Flush()
			os.Exit(3)
		}
	}
	fmt.Printf("VERIF-FUZZ runs=%d\n", f.Runs)
}
