package raft

// C20 harness: executes operation sequences generated from Identity.tla against the
// REAL connPool (dialer side), server.handleConn/replyRPC (listener side, through a real
// Serve on the fnet in-memory network), SetIdentity and the storage lock. Records the
// outcome of every operation and, through the verif hook rpc.handled, which listener
// processed which dialer's non-identity requests.

import (
	"bufio"
	"context"
	"encoding/json"
	"fmt"
	"io/ioutil"
	"os"
	"path/filepath"
	"sort"
	"sync"
	"testing"
	"time"

	"github.com/santhosh-tekuri/fnet"
)

type identOp struct {
	Op      string            `json:"op"`
	Dir     string            `json:"dir,omitempty"`
	ID      string            `json:"id,omitempty"`
	Addr    string            `json:"addr,omitempty"`
	Intent  string            `json:"intent,omitempty"`
	Resolve map[string]string `json:"resolve,omitempty"`
}

type identSeq struct {
	Name string    `json:"name"`
	Ops  []identOp `json:"ops"`
}

func parseIdent(s string) (cid, nid uint64) {
	fmt.Sscanf(s, "c%dn%d", &cid, &nid)
	return
}

type identInst struct {
	r     *Raft
	errCh chan error
	addr  string
}

type identRun struct {
	mu        sync.Mutex
	intent    string
	processed map[[2]string]bool
}

func runIdentSeq(s identSeq, base string, out *json.Encoder) {
	root, err := ioutil.TempDir(base, "ident")
	if err != nil {
		panic(err)
	}
	defer os.RemoveAll(root)
	nw := fnet.New()
	run := &identRun{processed: map[[2]string]bool{}}
	verifHook = func(point string, args ...interface{}) {
		if point != "rpc.handled" {
			return
		}
		r := args[0].(*Raft)
		run.mu.Lock()
		run.processed[[2]string{fmt.Sprintf("c%dn%d", r.cid, r.nid), run.intent}] = true
		run.mu.Unlock()
	}
	defer func() { verifHook = nil }()
	serving := map[string]*identInst{} // by address
	pools := map[string]*connPool{}
	resolvers := map[string]*resolver{}
	dialer := nw.Host("dialer")
	opt := Options{HeartbeatTimeout: time.Hour, PromoteThreshold: time.Hour, Bandwidth: 256 * 1024, LogSegmentSize: 1024, SnapshotsRetain: 1}
	dirOf := func(d string) string {
		p := filepath.Join(root, d)
		_ = os.MkdirAll(p, 0700)
		return p
	}
	rec := func(seq int, op identOp, res string) {
		run.mu.Lock()
		var ps [][2]string
		for k := range run.processed {
			ps = append(ps, k)
		}
		run.mu.Unlock()
		sort.Slice(ps, func(i, j int) bool { return ps[i][0]+ps[i][1] < ps[j][0]+ps[j][1] })
		if ps == nil {
			ps = [][2]string{}
		}
		_ = out.Encode(map[string]interface{}{"run": s.Name, "seq": seq, "op": op, "res": res, "processed": ps})
	}
	for k, op := range s.Ops {
		res := "ok"
		switch op.Op {
		case "init":
			for t, a := range op.Resolve {
				cid, nid := parseIdent(t)
				rs := &resolver{addrs: map[uint64]string{nid: a + ":7000"}, logger: nopLogger{}, alerts: nopAlerts{}}
				resolvers[t] = rs
				pools[t] = &connPool{src: 99, cid: cid, nid: nid, resolver: rs, dialFn: dialer.DialTimeout, max: 1}
			}
		case "setIdentity":
			cid, nid := parseIdent(op.ID)
			err := SetIdentity(dirOf(op.Dir), cid, nid)
			switch err {
			case nil:
			case ErrIdentityAlreadySet:
				res = "identityAlreadySet"
			case ErrLockExists:
				res = "lockExists"
			default:
				res = "err: " + err.Error()
			}
		case "serve":
			r, err := New(opt, &simFSM{}, dirOf(op.Dir))
			if err == ErrIdentityNotSet {
				res = "identityNotSet"
				break
			} else if err != nil {
				res = "err: " + err.Error()
				break
			}
			host := nw.Host(op.Addr)
			r.dialFn = host.DialTimeout
			l, err := host.Listen("tcp", op.Addr+":7000")
			if err != nil {
				res = "err: " + err.Error()
				break
			}
			inst := &identInst{r: r, errCh: make(chan error, 1), addr: op.Addr}
			go func() { inst.errCh <- r.Serve(l) }()
			// Serve either fails at once (lock) or answers tasks
			deadline := time.Now().Add(5 * time.Second)
			started := false
			for !started && time.Now().Before(deadline) {
				select {
				case e := <-inst.errCh:
					_ = l.Close()
					_ = r.storage.log.Close()
					if e == ErrLockExists {
						res = "lockExists"
					} else {
						res = fmt.Sprintf("err: %v", e)
					}
					deadline = time.Now()
					started = true
					inst = nil
				default:
					t := GetInfo()
					select {
					case r.Tasks() <- t:
						<-t.Done()
						started = true
					case <-time.After(5 * time.Millisecond):
					}
				}
			}
			if inst != nil {
				if !started {
					res = "err: serve did not start"
				}
				serving[op.Addr] = inst
			}
		case "shutdown":
			if inst := serving[op.Addr]; inst != nil {
				ctx, cancel := context.WithTimeout(context.Background(), 5*time.Second)
				_ = inst.r.Shutdown(ctx)
				cancel()
				<-inst.errCh
				_ = inst.r.storage.log.Close()
				delete(serving, op.Addr)
			}
		case "resolve":
			_, nid := parseIdent(op.Intent)
			rs := resolvers[op.Intent]
			rs.mu.Lock()
			rs.addrs[nid] = op.Addr + ":7000"
			rs.mu.Unlock()
		case "rpc":
			run.mu.Lock()
			run.intent = op.Intent
			run.mu.Unlock()
			pool := pools[op.Intent]
			pooledBefore := len(pool.conns) > 0
			err := pool.doRPC(&voteReq{req: req{term: 0, src: 99}, transfer: true}, &voteResp{}, time.Now().Add(2*time.Second))
			if err != nil {
				if _, ok := err.(IdentityError); ok {
					res = "identityError"
				} else if pooledBefore {
					res = "connError"
				} else {
					res = "dialError"
				}
			}
			time.Sleep(2 * time.Millisecond) // let a listener that should NOT have got it show up in the hook
		}
		rec(k+1, op, res)
	}
	for a, inst := range serving {
		ctx, cancel := context.WithTimeout(context.Background(), 5*time.Second)
		_ = inst.r.Shutdown(ctx)
		cancel()
		<-inst.errCh
		_ = inst.r.storage.log.Close()
		delete(serving, a)
	}
}

func TestVerifIdent(t *testing.T) {
	in, outFile := os.Getenv("VERIF_IDOPS"), os.Getenv("VERIF_OUT")
	if in == "" || outFile == "" {
		t.Skip("VERIF_IDOPS / VERIF_OUT not set")
	}
	f, err := os.Open(in)
	if err != nil {
		t.Fatal(err)
	}
	defer f.Close()
	of, err := os.Create(outFile)
	if err != nil {
		t.Fatal(err)
	}
	defer of.Close()
	w := bufio.NewWriterSize(of, 1<<20)
	defer w.Flush()
	enc := json.NewEncoder(w)
	base := os.Getenv("VERIF_TMP")
	if base == "" {
		base = os.TempDir()
	}
	sc := bufio.NewScanner(f)
	sc.Buffer(make([]byte, 1<<20), 1<<24)
	n := 0
	for sc.Scan() {
		if len(sc.Bytes()) == 0 {
			continue
		}
		var s identSeq
		if err := json.Unmarshal(sc.Bytes(), &s); err != nil {
			fmt.Fprintln(os.Stderr, "HARNESS-ERROR bad sequence:", err)
			os.Exit(3)
		}
		runIdentSeq(s, base, enc)
		n++
	}
	fmt.Printf("VERIF-IDENT sequences=%d\n", n)
}
