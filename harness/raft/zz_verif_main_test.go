package raft

// Layer-1 driver: replays schedules (one JSON object per line in $VERIF_SCHED)
// against real nodes and writes one ndjson record per executed step to
// $VERIF_OUT. A harness problem exits with status 3 (never a verdict).

import (
	"bufio"
	"encoding/json"
	"fmt"
	"os"
	"testing"
)

type simSchedule struct {
	Name      string    `json:"name"`
	Nodes     []uint64  `json:"nodes"`
	Voters    []uint64  `json:"voters"`
	Nonvoters []uint64  `json:"nonvoters"`
	Eager     simEager  `json:"eager"`
	Steps     []simStep `json:"steps"`
}

func runSchedule(s simSchedule, out *bufio.Writer) (err error) {
	if s.Nonvoters == nil {
		s.Nonvoters = []uint64{}
	}
	if s.Voters == nil {
		s.Voters = []uint64{}
	}
	dir := mustTempDir("sim")
	defer os.RemoveAll(dir)
	defer func() {
		if v := recover(); v != nil {
			if hs, ok := v.(harnessStuck); ok {
				err = fmt.Errorf("harness stuck in %s: %s", s.Name, string(hs))
				return
			}
			panic(v)
		}
	}()
	c := newSimCluster(s.Name, dir, s.Nodes, s.Voters, s.Nonvoters, s.Eager, out)
	defer c.close()
	c.settle()
	c.record(map[string]interface{}{"k": "init"}, map[string]interface{}{"kind": "init", "nodes": s.Nodes, "voters": s.Voters, "nonvoters": s.Nonvoters, "eager": s.Eager})
	for _, st := range s.Steps {
		ev := c.doStep(st)
		c.record(st, ev)
	}
	return nil
}

func TestVerifSim(t *testing.T) {
	schedFile, outFile := os.Getenv("VERIF_SCHED"), os.Getenv("VERIF_OUT")
	if schedFile == "" || outFile == "" {
		t.Skip("VERIF_SCHED / VERIF_OUT not set")
	}
	in, err := os.Open(schedFile)
	if err != nil {
		t.Fatal(err)
	}
	defer in.Close()
	of, err := os.Create(outFile)
	if err != nil {
		t.Fatal(err)
	}
	defer of.Close()
	out := bufio.NewWriterSize(of, 1<<20)
	defer out.Flush()
	sc := bufio.NewScanner(in)
	sc.Buffer(make([]byte, 1<<20), 1<<26)
	n := 0
	for sc.Scan() {
		line := sc.Bytes()
		if len(line) == 0 {
			continue
		}
		var s simSchedule
		if err := json.Unmarshal(line, &s); err != nil {
			fmt.Fprintln(os.Stderr, "HARNESS-ERROR bad schedule:", err)
			out.Flush()
			os.Exit(3)
		}
		if err := runSchedule(s, out); err != nil {
			fmt.Fprintln(os.Stderr, "HARNESS-ERROR", err)
			out.Flush()
			os.Exit(3)
		}
		n++
	}
	fmt.Printf("VERIF-SIM schedules=%d\n", n)
}
