package raft

// Layer-1 deterministic simulation of a cluster of REAL *Raft objects.
//
// Nodes are created with New() and are never Serve()d: the harness thread
// plays the raft goroutine (it calls the real handlers, followed by a mirror
// of stateLoop's role-change post-processing), the FSM goroutine (it pops
// fsm.ch and calls the real onApply/...), the replication goroutines (parked
// by the verif hook; the harness calls the real replication methods) and the
// network (captured frames). Timers never fire (HeartbeatTimeout = 1h): a
// timeout is a schedule step.

import (
	"bytes"
	"encoding/json"
	rlog "github.com/santhosh-tekuri/raft/log"
	"fmt"
	"io"
	"io/ioutil"
	"net"
	"os"
	"os/exec"
	"path/filepath"
	"runtime"
	"runtime/debug"
	"sort"
	"strconv"
	"strings"
	"sync"
	"time"
)

const simWait = 20 * time.Second

// harnessStuck is raised (as panic) when the harness itself cannot make
// progress; it is never a property verdict (exit 2).
type harnessStuck string

type simCrash struct{ point string }

type simEager struct {
	Ldr  bool `json:"ldr"`
	Poll bool `json:"poll"`
	Fsm  bool `json:"fsm"`
	// entries per append request (0 = the library's 64): lets batching happen with short logs
	MaxAppend int `json:"maxAppend,omitempty"`
}

type simRPC struct {
	kind     string // "vote" | "timeoutNow"
	from, to uint64
	fromInc  int
	term     uint64
	transfer bool
	lastIdx  uint64
	lastTerm uint64
	ch       chan rpcResponse
	conn     *simConn
	phase    int // 0 request pending, 1 response pending, 2 done
	resp     []byte
	result   rpcResult
	respTerm uint64
}

type simTask struct {
	id   int
	kind string
	node uint64
	inc  int
	val  int
	t    Task
	done bool
	res  string // outcome observed when the task completed
}

type simNode struct {
	c    *simCluster
	id   uint64
	dir  string
	up   bool
	inc  int
	r    *Raft
	f    *follower
	cnd  *candidate
	l    *leader
	cur  State
	fsm  *simFSM
	died string // non-empty: process died by panic (text)
	// reason the node stopped by itself (closeReason), if any
	stopped string
	// projection kept while down
	downProj *pNodeState
	// peers that completed an identity handshake with this incarnation
	peers map[uint64]bool
	// snapshot goroutine control (gates at the verif hooks snapG.ask / snapG.store)
	snapPhase string
	gate      *simGate
}

type simGate struct {
	mu      sync.Mutex
	at      string // hook point the goroutine is parked at ("" = running)
	release chan struct{}
}

func (g *simGate) park(point string) {
	g.mu.Lock()
	g.at = point
	ch := make(chan struct{})
	g.release = ch
	g.mu.Unlock()
	<-ch
}

func (g *simGate) parkedAt() string {
	g.mu.Lock()
	defer g.mu.Unlock()
	return g.at
}

func (g *simGate) open() {
	g.mu.Lock()
	ch := g.release
	g.at, g.release = "", nil
	g.mu.Unlock()
	if ch != nil {
		close(ch)
	}
}

type simCluster struct {
	name    string
	cid     uint64
	ids     []uint64
	nodes   map[uint64]*simNode
	baseDir string
	opt     Options
	eager   simEager

	mu       sync.Mutex
	undialed map[[2]uint64][]*simRPC
	parked   map[*replication]*appendReq

	rpcs    []*simRPC
	repls   []*simRepl
	orphans []*replConn
	tasks   []*simTask
	connSeq int
	seq     int

	crashAt    *crashSpec
	crashFired bool
	crashImage string
	asyncCrash uint64
	fair       map[string]interface{}
	isolated   map[uint64]bool // fuzz driver only: nodes currently cut off from the others
	armSeq     int

	rec     *json.Encoder
	lastEv  map[string]interface{}
	evExtra []map[string]interface{}
	acts    []map[string]interface{}
}

type crashSpec struct {
	node  uint64
	point string
	hit   int
	seen  int
}

var simCur *simCluster // the cluster the global hooks report to

func simAddrOf(id uint64) string { return fmt.Sprintf("n%d:%d", id, 7000+id) }

func simIDOfAddr(addr string) uint64 {
	i := strings.IndexByte(addr, ':')
	id, err := strconv.ParseUint(addr[1:i], 10, 64)
	if err != nil {
		panic(harnessStuck("bad sim address " + addr))
	}
	return id
}

func newSimCluster(name string, baseDir string, ids []uint64, voters []uint64, nonvoters []uint64, eager simEager, rec io.Writer) *simCluster {
	c := &simCluster{
		name:     name,
		cid:      77,
		ids:      ids,
		nodes:    make(map[uint64]*simNode),
		baseDir:  baseDir,
		eager:    eager,
		undialed: make(map[[2]uint64][]*simRPC),
		parked:   make(map[*replication]*appendReq),
	}
	verifMaxAppendEntries = uint64(eager.MaxAppend)
	if rec != nil {
		c.rec = json.NewEncoder(rec)
	}
	c.opt = Options{
		HeartbeatTimeout: time.Hour,
		PromoteThreshold: time.Hour,
		Bandwidth:        256 * 1024,
		LogSegmentSize:   1024,
		SnapshotsRetain:  1,
		ShutdownOnRemove: true,
	}
	simCur = c
	installSimHooks()

	nodes := make(map[uint64]Node)
	for _, id := range voters {
		nodes[id] = Node{ID: id, Addr: simAddrOf(id), Voter: true}
	}
	for _, id := range nonvoters {
		nodes[id] = Node{ID: id, Addr: simAddrOf(id)}
	}
	for _, id := range ids {
		dir := filepath.Join(baseDir, fmt.Sprintf("n%d", id))
		if err := os.MkdirAll(dir, 0700); err != nil {
			panic(harnessStuck(err.Error()))
		}
		if err := SetIdentity(dir, c.cid, id); err != nil {
			panic(harnessStuck(err.Error()))
		}
		if _, member := nodes[id]; member {
			if err := bootstrapStorage(dir, c.opt, nodes); err != nil {
				panic(harnessStuck(err.Error()))
			}
		}
		n := &simNode{c: c, id: id, dir: dir}
		c.nodes[id] = n
		n.start()
	}
	return c
}

func (c *simCluster) close() {
	for _, n := range c.nodes {
		if n.up {
			n.kill()
		}
		if n.gate != nil {
			n.gate.open()
		}
	}
	for _, rpc := range c.rpcs {
		if rpc.conn != nil {
			rpc.conn.closeRemote()
		}
	}
	if simCur == c {
		simCur = nil
	}
}

// hooks ---------------------------------------------------------------------

var simHooksInstalled bool

// goroutine id of the caller (the harness thread is the only one allowed to unwind a handler by panic)
func curGoID() uint64 {
	var buf [64]byte
	n := runtime.Stack(buf[:], false)
	var id uint64
	fmt.Sscanf(string(buf[:n]), "goroutine %d ", &id)
	return id
}

var simHarnessGoID uint64

func installSimHooks() {
	rlog.SetVerifHook(func(point string, args ...interface{}) {
		c := simCur
		if c == nil || len(args) == 0 {
			return
		}
		name, ok := args[0].(string)
		if !ok {
			return
		}
		for id, n := range c.nodes {
			if n.up && strings.HasPrefix(name, n.dir+string(os.PathSeparator)) {
				c.maybeCrash(point, id)
				return
			}
		}
	})
	verifReplHook = func(r *replication, req *appendReq) bool {
		c := simCur
		if c == nil {
			return false
		}
		c.mu.Lock()
		c.parked[r] = req
		c.mu.Unlock()
		return true
	}
	verifHook = func(point string, args ...interface{}) {
		c := simCur
		if c == nil {
			return
		}
		c.onHook(point, args...)
	}
	// the library's own tracer points: what a leader does inside a step, at the instant it does it
	tracer.configChanged = func(r *Raft) {
		c := simCur
		if c == nil || r.state != Leader || r.ldr == nil {
			return
		}
		c.acts = append(c.acts, map[string]interface{}{"kind": "cfgChanged", "n": r.nid, "index": r.configs.Latest.Index,
			"prev": r.configs.Committed.Index, "commit": r.commitIndex, "start": r.ldr.startIndex})
	}
	tracer.configActionStarted = func(r *Raft, id uint64, action Action) {
		c := simCur
		if c == nil || id == r.nid || r.ldr == nil {
			return
		}
		repl, ok := r.ldr.repls[id]
		if !ok {
			return
		}
		st := repl.status
		m := map[string]interface{}{"kind": "action", "n": r.nid, "id": id, "action": action.String(), "match": st.matchIndex,
			"rdone": false, "rlast": uint64(0), "last": r.lastLogIndex}
		if st.round != nil {
			m["rdone"], m["rlast"] = st.round.finished(), st.round.LastIndex
		}
		c.acts = append(c.acts, m)
	}
	tracer.shuttingDown = func(r *Raft, reason error) {
		c := simCur
		if c == nil || reason != ErrNodeRemoved {
			return
		}
		_, member := r.configs.Latest.Nodes[r.nid]
		c.acts = append(c.acts, map[string]interface{}{"kind": "stopped", "n": r.nid, "commit": r.commitIndex,
			"cfgIndex": r.configs.Latest.Index, "member": member})
	}
	tracer.stateChanged, tracer.leaderChanged, tracer.electionStarted, tracer.electionAborted = nil, nil, nil, nil
	tracer.commitReady, tracer.configCommitted, tracer.configReverted, tracer.unreachable = nil, nil, nil, nil
	tracer.quorumUnreachable, tracer.roundCompleted, tracer.logCompacted = nil, nil, nil
}

func (c *simCluster) onHook(point string, args ...interface{}) {
	switch point {
	case "vote.send":
		r := args[0].(*Raft)
		if n := c.nodes[r.nid]; n == nil || n.r != r {
			return
		}
		req := args[2].(*voteReq)
		rpc := &simRPC{kind: "vote", from: r.nid, to: args[1].(uint64), term: req.term, transfer: req.transfer,
			lastIdx: req.lastLogIndex, lastTerm: req.lastLogTerm, ch: args[3].(chan rpcResponse)}
		if n := c.nodes[r.nid]; n != nil {
			rpc.fromInc = n.inc
		}
		c.mu.Lock()
		k := [2]uint64{rpc.from, rpc.to}
		c.undialed[k] = append(c.undialed[k], rpc)
		c.mu.Unlock()
		c.rpcs = append(c.rpcs, rpc)
	case "timeoutNow.send":
		r := args[0].(*Raft)
		if n := c.nodes[r.nid]; n == nil || n.r != r {
			return
		}
		req := args[2].(*timeoutNowReq)
		rpc := &simRPC{kind: "timeoutNow", from: r.nid, to: args[1].(uint64), term: req.term, ch: args[3].(chan rpcResponse)}
		if n := c.nodes[r.nid]; n != nil {
			rpc.fromInc = n.inc
		}
		c.mu.Lock()
		k := [2]uint64{rpc.from, rpc.to}
		c.undialed[k] = append(c.undialed[k], rpc)
		c.mu.Unlock()
		c.rpcs = append(c.rpcs, rpc)
		// the instant the leader designates its successor (C16): what it knows about the target right now
		tn, member := r.configs.Latest.Nodes[rpc.to]
		act := map[string]interface{}{"kind": "xferTarget", "n": r.nid, "target": rpc.to, "voter": member && tn.Voter, "last": r.lastLogIndex, "match": uint64(0)}
		if repl := r.ldr.repls[rpc.to]; repl != nil {
			act["match"] = repl.status.matchIndex
		}
		c.acts = append(c.acts, act)
		c.rpcs = append(c.rpcs, rpc)
	}
	if point == "snapG.ask" || point == "snapG.store" {
		if id, ok := c.hookNode(args...); ok {
			if n := c.nodes[id]; n != nil && n.gate != nil {
				n.gate.park(point) // runs in the snapshot goroutine: blocks until the schedule releases it
			}
		}
		return
	}
	if point == "leader.flushed" {
		// the commit decision: the voters of the configuration in force at this instant (C06)
		r := args[0].(*Raft)
		vs := []uint64{}
		for id, nd := range r.configs.Latest.Nodes {
			if nd.Voter {
				vs = append(vs, id)
			}
		}
		sort.Slice(vs, func(i, j int) bool { return vs[i] < vs[j] })
		c.acts = append(c.acts, map[string]interface{}{"kind": "commit", "n": r.nid, "index": args[1].(uint64), "voters": vs})
	}
	// crash injection
	if cs := c.crashAt; cs != nil && !c.crashFired && cs.point == point {
		if id, ok := c.hookNode(args...); ok {
			c.maybeCrash(point, id)
		}
	}
}

// maybeCrash: the armed crash point is reached by node id: take the crash image (what a process kill at this
// instant leaves on disk) and stop the node - by unwinding the handler when we are on the harness thread,
// by parking the goroutine for ever otherwise (snapshot goroutine).
func (c *simCluster) maybeCrash(point string, id uint64) {
	cs := c.crashAt
	if cs == nil || c.crashFired || cs.point != point || cs.node != id {
		return
	}
	cs.seen++
	if cs.seen != cs.hit {
		return
	}
	c.crashFired = true
	c.crashImage = c.copyDir(c.nodes[id].dir)
	if curGoID() == simHarnessGoID {
		panic(simCrash{point})
	}
	c.asyncCrash = id
	select {} // this goroutine belongs to a dead process now
}

// hookNode finds which node a hook call belongs to.
func (c *simCluster) hookNode(args ...interface{}) (uint64, bool) {
	if len(args) == 0 {
		return 0, false
	}
	// match by object identity: goroutines left over from an earlier run must not be taken for nodes of this one
	for id, n := range c.nodes {
		if n.r == nil {
			continue
		}
		switch v := args[0].(type) {
		case *Raft:
			if n.r == v {
				return id, true
			}
		case *storage:
			if n.r.storage == v {
				return id, true
			}
		case *value:
			if n.dir == v.dir {
				return id, true
			}
		case *stateMachine:
			if n.r.fsm == v {
				return id, true
			}
		case *snapshots:
			if n.r.snaps == v {
				return id, true
			}
		}
	}
	return 0, false
}

func (c *simCluster) copyDir(dir string) string {
	dst := fmt.Sprintf("%s.img%d", dir, c.seq)
	_ = os.RemoveAll(dst)
	if out, err := exec.Command("cp", "-r", dir, dst).CombinedOutput(); err != nil {
		panic(harnessStuck(fmt.Sprintf("cp: %v %s", err, out)))
	}
	_ = os.Remove(filepath.Join(dst, "lock"))
	return dst
}

func (c *simCluster) dialFnFor(from uint64) dialFn {
	return func(network, address string, timeout time.Duration) (net.Conn, error) {
		to := simIDOfAddr(address)
		c.mu.Lock()
		defer c.mu.Unlock()
		k := [2]uint64{from, to}
		list := c.undialed[k]
		if len(list) == 0 {
			return nil, fmt.Errorf("sim: unexpected dial %d->%d", from, to)
		}
		rpc := list[0]
		c.undialed[k] = list[1:]
		sc := newSimConn(from, to) // (no id: dial order of the vote goroutines is up to the Go scheduler)
		sc.pending = rpc
		rpc.conn = sc
		return sc, nil
	}
}

// settle waits until every announced RPC goroutine has dialled and is blocked
// reading (its request is fully written), and every new replication is parked.
func (c *simCluster) settle() {
	deadline := time.Now().Add(simWait)
	for _, rpc := range c.rpcs {
		if rpc.phase == 2 {
			continue
		}
		for {
			c.mu.Lock()
			sc := rpc.conn
			c.mu.Unlock()
			if sc != nil {
				if !sc.waitIdle(simWait) {
					panic(harnessStuck("rpc goroutine did not block"))
				}
				break
			}
			if time.Now().After(deadline) {
				panic(harnessStuck("rpc goroutine did not dial"))
			}
			runtime.Gosched()
			time.Sleep(20 * time.Microsecond)
		}
	}
	for _, n := range c.nodes {
		if n.up && n.cur == Leader {
			for id, repl := range n.l.repls {
				c.ensureRepl(n, id, repl)
			}
		}
	}
}

// node ------------------------------------------------------------------------

func (n *simNode) start() {
	c := n.c
	n.fsm = &simFSM{}
	r, err := New(c.opt, n.fsm, n.dir)
	if err != nil {
		panic(harnessStuck(fmt.Sprintf("New(%s): %v", n.dir, err)))
	}
	n.startWith(r)
}

func (n *simNode) startWith(r *Raft) {
	c := n.c
	n.r = r
	n.inc++
	n.up = true
	n.died, n.stopped = "", ""
	n.downProj = nil
	n.snapPhase, n.gate = "idle", &simGate{}
	n.peers = make(map[uint64]bool)
	r.dialFn = c.dialFnFor(n.id)
	for _, id := range c.ids {
		r.connPools[id] = &connPool{src: r.nid, cid: r.cid, nid: id, resolver: r.resolver, dialFn: r.dialFn, max: 0}
	}
	n.f = &follower{Raft: r}
	n.cnd = &candidate{Raft: r}
	n.l = &leader{
		Raft:  r,
		repls: make(map[uint64]*replication),
		transfer: transfer{
			timer:        newSafeTimer(),
			newTermTimer: newSafeTimer(),
		},
	}
	r.ldr, r.cnd = n.l, n.cnd
	// Serve(): restore fsm from last snapshot, if present
	if r.snaps.index > 0 {
		if err := r.fsm.onRestoreReq(); err != nil {
			panic(harnessStuck("fsm restore: " + err.Error()))
		}
		r.commitIndex = r.snaps.index
	}
	n.cur = r.state
	n.role(n.cur).init()
}

type simRole interface {
	init()
	release()
	onTimeout()
}

func (n *simNode) role(s State) simRole {
	switch s {
	case Follower:
		return n.f
	case Candidate:
		return n.cnd
	case Leader:
		return n.l
	}
	panic(harnessStuck("bad state"))
}

// event runs one raft-goroutine critical section followed by the mirror of
// stateLoop's post-processing. A panic escaping it is what would kill the
// process (stateLoop's recover re-panics for assertions/bugs/runtime errors)
// or close the node with an error (other errors): either way the node stops.
func (n *simNode) event(fn func()) {
	c := n.c
	defer func() {
		if v := recover(); v != nil {
			if hs, ok := v.(harnessStuck); ok {
				panic(hs)
			}
			if c.crashFired && c.crashAt != nil && n.id == c.crashAt.node {
				// injected crash: restart will use the image
				c.note(map[string]interface{}{"kind": "crashPoint", "n": n.id, "point": c.crashAt.point})
				n.kill()
				n.downProj = c.projectImage(n, c.crashImage)
				return
			}
			n.died = "raft"
			st := string(debug.Stack())
			c.note(map[string]interface{}{"kind": "panic", "n": n.id, "text": fmt.Sprintf("%v", v), "stack": trimStack(st)})
			n.kill()
		}
	}()
	fn()
	n.post()
}

func (n *simNode) post() {
	r := n.r
	for r.state != n.cur && !r.isClosed() {
		r.timer.stop()
		n.role(n.cur).release()
		n.cur = r.state
		n.role(n.cur).init()
	}
	if r.isClosed() {
		// stateLoop returns: deferred release of the current role and of Raft
		n.role(n.cur).release()
		if r.snapTakenCh != nil {
			// Raft.release waits for the snapshot in progress; the FSM goroutine is still running meanwhile
			n.finishSnapshot()
		}
		r.release()
		// Serve: the FSM channel is closed only now; the FSM goroutine finishes what was queued (answering tasks)
		for n.up && n.died == "" && n.fsmStep() {
		}
		n.stopped = fmt.Sprintf("%v", r.closeReason)
		n.c.note(map[string]interface{}{"kind": "stopped", "n": n.id, "reason": n.stopped})
		n.kill()
	}
}

// finishSnapshot lets the snapshot goroutine of a closing node run to completion (what Raft.release waits for).
func (n *simNode) finishSnapshot() {
	if n.snapPhase == "start" {
		n.c.stepSnapG(n.id, "ask")
	}
	for n.snapPhase == "asked" && n.fsmStep() {
	}
	if n.snapPhase == "got" || n.snapPhase == "err" {
		n.c.stepSnapG(n.id, "store")
	}
	n.snapPhase = "idle"
}

// projectImage: what a restart will find in a crash image (durable term/vote, log, snapshot), read with the real
// openStorage on a scratch copy so that the image itself stays untouched.
func (c *simCluster) projectImage(n *simNode, image string) *pNodeState {
	p := pNodeState{ID: n.id, Inc: n.inc, State: "D", Log: []pEntry{}, Fsm: pFsm{Cmds: []int{}}, Bnds: []uint64{}, SnapG: "idle",
		Snap: pSnap{Cfg: pCfg{Nodes: []pNode{}}, Cmds: []int{}}, CfgC: pCfg{Nodes: []pNode{}}, CfgL: pCfg{Nodes: []pNode{}}, Ldr: pLdr{NeQ: []pNe{}, Repls: []pRepl{}}}
	tmp := image + ".view"
	_ = os.RemoveAll(tmp)
	if out, err := exec.Command("cp", "-r", image, tmp).CombinedOutput(); err != nil {
		panic(harnessStuck(fmt.Sprintf("cp: %v %s", err, out)))
	}
	defer os.RemoveAll(tmp)
	st, err := openStorage(tmp, c.opt)
	if err != nil {
		p.Died = "" // the restart step will report the failure
		return &p
	}
	defer st.log.VerifCloseNoSync()
	p.Term, p.Vote = st.term, st.votedFor
	p.Disk = pDisk{Term: st.term, Vote: st.votedFor}
	p.LogPrev, p.Last, p.LastTerm, p.Synced = st.log.PrevIndex(), st.lastLogIndex, st.lastLogTerm, st.log.LastIndex()
	for i := st.log.PrevIndex() + 1; i <= st.log.LastIndex(); i++ {
		e := &entry{}
		if err := st.getEntry(i, e); err != nil {
			break
		}
		pe := pEntry{I: e.index, T: e.term, Y: typName(e.typ), C: []pNode{}}
		if e.typ == entryUpdate {
			pe.V = parseCmd(e.data)
		} else if e.typ == entryConfig {
			var cfg Config
			if cfg.decode(e) == nil {
				pe.C = projCfg(cfg).Nodes
			}
		}
		p.Log = append(p.Log, pe)
	}
	for _, sg := range st.log.VerifSegments() {
		p.Bnds = append(p.Bnds, uint64(sg[0]))
	}
	if meta, err := st.snaps.meta(); err == nil {
		p.Snap = pSnap{Index: st.snaps.index, Term: st.snaps.term, Cfg: projCfg(meta.config), Cmds: readSnapCmds(st.snaps.dir, st.snaps.index)}
	}
	p.CfgC, p.CfgL = projCfg(st.configs.Committed), projCfg(st.configs.Latest)
	return &p
}

// kill drops the node the way a process kill does: nothing is flushed.
func (n *simNode) kill() {
	if !n.up {
		return
	}
	c := n.c
	var p pNodeState
	if c.crashFired && c.crashAt != nil && c.crashAt.node == n.id {
		// killed in the middle of a storage operation: the in-memory log structures are inconsistent (segments
		// unmapped but still linked); the caller projects the crash image instead
		p = pNodeState{ID: n.id, Inc: n.inc, Log: []pEntry{}, Bnds: []uint64{}, SnapG: "idle",
			Snap: pSnap{Cfg: pCfg{Nodes: []pNode{}}, Cmds: []int{}}, CfgC: pCfg{Nodes: []pNode{}}, CfgL: pCfg{Nodes: []pNode{}}}
	} else {
		p = c.project(n)
	}
	n.up = false
	// what a restart will find
	p.Up = false
	p.State = "D"
	p.Leader = 0
	p.Commit = 0
	cut := 0
	for _, e := range p.Log {
		if e.I <= p.Synced {
			cut++
		}
	}
	p.Log = p.Log[:cut]
	p.Ldr = pLdr{NeQ: []pNe{}, Repls: []pRepl{}}
	p.Fsm = pFsm{Cmds: []int{}}
	n.downProj = &p
	for id, repl := range n.l.repls {
		select {
		case <-repl.stopCh:
		default:
			close(repl.stopCh)
		}
		delete(n.l.repls, id)
	}
	for _, sr := range c.repls {
		if sr.ldr == n && !sr.ended {
			sr.ended = true
			if sr.conn != nil {
				sr.conn.orphan = true
			}
		}
	}
	// connections whose server side was this node are dead
	for _, sr := range c.repls {
		if sr.to == n.id && sr.conn != nil {
			sr.conn.peerDead = true
			sr.conn.reqs = nil
		}
	}
	for _, oc := range c.orphans {
		if oc.to == n.id {
			oc.reqs = nil
		}
	}
	// client goroutines of this incarnation
	for _, rpc := range c.rpcs {
		if rpc.from == n.id && rpc.fromInc == n.inc && rpc.phase != 2 {
			if rpc.conn != nil {
				rpc.conn.closeRemote()
			}
			rpc.phase = 2
		}
	}
	n.r.storage.log.VerifCloseNoSync()
	n.r.timer.stop()
}

func (n *simNode) restart() {
	c := n.c
	if c.crashImage != "" && c.crashAt != nil && c.crashAt.node == n.id {
		// the crash happened in the middle of a handler: what the deferred
		// functions did while unwinding is not part of the crash image
		_ = os.RemoveAll(n.dir)
		if err := os.Rename(c.crashImage, n.dir); err != nil {
			panic(harnessStuck(err.Error()))
		}
		c.crashImage = ""
	}
	_ = os.Remove(filepath.Join(n.dir, "lock"))
	n.fsm = &simFSM{}
	var r *Raft
	var err error
	func() {
		// a storage directory the node cannot start from (assertion / panic in openStorage) is a failed restart (C10)
		defer func() {
			if v := recover(); v != nil {
				if hs, ok := v.(harnessStuck); ok {
					panic(hs)
				}
				err = fmt.Errorf("panic: %v", v)
				n.c.note(map[string]interface{}{"kind": "panic", "n": n.id, "text": fmt.Sprintf("New: %v", v), "stack": trimStack(string(debug.Stack()))})
			}
		}()
		r, err = New(c.opt, n.fsm, n.dir)
	}()
	if err != nil {
		n.c.note(map[string]interface{}{"kind": "restartFailed", "n": n.id, "err": err.Error()})
		return
	}
	n.startWith(r)
}

// fsm ---------------------------------------------------------------------------

type simFSM struct {
	cmds     []int
	restores int
}

func (f *simFSM) Update(cmd []byte) interface{} {
	id := parseCmd(cmd)
	f.cmds = append(f.cmds, id)
	return len(f.cmds)
}

func (f *simFSM) Read(cmd interface{}) interface{} {
	return append([]int{}, f.cmds...)
}

// an update command is "<id> <padding>": the padding makes log segments roll over every few entries
func parseCmd(cmd []byte) int {
	txt := string(cmd)
	if i := strings.IndexByte(txt, ' '); i >= 0 {
		txt = txt[:i]
	}
	id, err := strconv.Atoi(txt)
	if err != nil {
		return -1
	}
	return id
}

const simUpdBytes = 300

func makeCmd(id int) []byte {
	b := []byte(strconv.Itoa(id) + " ")
	for len(b) < simUpdBytes {
		b = append(b, 'x')
	}
	return b
}

type simFSMState struct{ cmds []int }

func (s simFSMState) Persist(w io.Writer) error { return json.NewEncoder(w).Encode(s.cmds) }
func (s simFSMState) Release()                  {}

func (f *simFSM) Snapshot() (FSMState, error) {
	return simFSMState{append([]int{}, f.cmds...)}, nil
}

func (f *simFSM) Restore(r io.Reader) error {
	var cmds []int
	if err := json.NewDecoder(r).Decode(&cmds); err != nil {
		return err
	}
	f.cmds = cmds
	f.restores++
	return nil
}

// fsmStep plays one iteration of stateMachine.runLoop.
func (n *simNode) fsmStep() bool {
	select {
	case t := <-n.r.fsm.ch:
		n.fsmDispatch(t)
		return true
	default:
		return false
	}
}

func (n *simNode) fsmDispatch(t interface{}) {
	fsm := n.r.fsm
	defer func() {
		if v := recover(); v != nil {
			if hs, ok := v.(harnessStuck); ok {
				panic(hs)
			}
			// a panic in the FSM goroutine is not recovered by the library: the process dies
			n.died = "fsm"
			n.c.note(map[string]interface{}{"kind": "panic", "n": n.id, "text": fmt.Sprintf("fsm goroutine: %v", v), "stack": trimStack(string(debug.Stack()))})
			n.kill()
		}
	}()
	switch t := t.(type) {
	case fsmApply:
		fsm.onApply(t)
	case fsmDirtyRead:
		resp := fsm.Read(t.ne.cmd)
		t.ne.reply(resp)
	case fsmSnapReq:
		fsm.onSnapReq(t)
		n.snapAfterFsm()
	case fsmRestoreReq:
		err := fsm.onRestoreReq()
		t.err <- err
	case lastApplied:
		t.reply(fsm.index)
	}
}

func (n *simNode) fsmDrain() {
	for n.up && n.fsmStep() {
	}
	// stateLoop: case err := <-r.fsmRestoredCh (panics on error)
	if n.up {
		select {
		case err := <-n.r.fsmRestoredCh:
			if err != nil {
				n.event(func() { panic(err) })
			}
		default:
		}
	}
}

// misc ----------------------------------------------------------------------------

func (c *simCluster) note(m map[string]interface{}) {
	c.evExtra = append(c.evExtra, m)
}

func trimStack(s string) string {
	lines := strings.Split(s, "\n")
	var keep []string
	for _, l := range lines {
		if strings.Contains(l, "santhosh-tekuri/raft") && !strings.Contains(l, "zz_verif") {
			keep = append(keep, strings.TrimSpace(l))
		}
		if len(keep) >= 12 {
			break
		}
	}
	return strings.Join(keep, " | ")
}

func sortedIDs(m map[uint64]*replication) []uint64 {
	ids := make([]uint64, 0, len(m))
	for id := range m {
		ids = append(ids, id)
	}
	sort.Slice(ids, func(i, j int) bool { return ids[i] < ids[j] })
	return ids
}

func mustTempDir(prefix string) string {
	base := os.Getenv("VERIF_TMP")
	if base == "" {
		base = os.TempDir()
	}
	d, err := ioutil.TempDir(base, prefix)
	if err != nil {
		panic(err)
	}
	return d
}

var _ = bytes.NewReader
