package raft

// Layer-1 deterministic simulation: in-memory connections.
//
// simConn is the client side of a connection used by library code (vote and
// timeout-now goroutines, replication methods driven by the harness). Writes
// never block and are captured; reads block until the harness feeds bytes.
// srvConn is the server side handed to the real replyRPC: it reads the bytes
// the real encoder produced.

import (
	"bufio"
	"bytes"
	"errors"
	"io"
	"net"
	"sync"
	"time"
)

type simAddr string

func (a simAddr) Network() string { return "sim" }
func (a simAddr) String() string  { return string(a) }

type simConn struct {
	mu      sync.Mutex
	cond    *sync.Cond
	in      bytes.Buffer
	out     bytes.Buffer
	closedL bool // closed by the library side
	closedR bool // closed by the harness (peer side)
	waiting bool // library side is blocked in Read with nothing to read
	from    uint64
	to      uint64
	id      int
	pending *simRPC
}

func newSimConn(from, to uint64) *simConn {
	c := &simConn{from: from, to: to}
	c.cond = sync.NewCond(&c.mu)
	return c
}

func (c *simConn) Read(p []byte) (int, error) {
	c.mu.Lock()
	defer c.mu.Unlock()
	for c.in.Len() == 0 && !c.closedL && !c.closedR {
		c.waiting = true
		c.cond.Broadcast()
		c.cond.Wait()
	}
	c.waiting = false
	if c.in.Len() > 0 {
		return c.in.Read(p)
	}
	if c.closedL {
		return 0, errors.New("sim: use of closed connection")
	}
	return 0, io.EOF
}

func (c *simConn) Write(p []byte) (int, error) {
	c.mu.Lock()
	defer c.mu.Unlock()
	if c.closedL {
		return 0, errors.New("sim: write on closed connection")
	}
	if c.closedR {
		return 0, errors.New("sim: broken pipe")
	}
	c.out.Write(p)
	c.cond.Broadcast()
	return len(p), nil
}

func (c *simConn) Close() error {
	c.mu.Lock()
	defer c.mu.Unlock()
	c.closedL = true
	c.cond.Broadcast()
	return nil
}

func (c *simConn) LocalAddr() net.Addr                { return simAddr("local") }
func (c *simConn) RemoteAddr() net.Addr               { return simAddr("remote") }
func (c *simConn) SetDeadline(t time.Time) error      { return nil }
func (c *simConn) SetReadDeadline(t time.Time) error  { return nil }
func (c *simConn) SetWriteDeadline(t time.Time) error { return nil }

// harness side ------------------------------------------------------------

// closeRemote breaks the connection from the peer side.
func (c *simConn) closeRemote() {
	c.mu.Lock()
	c.closedR = true
	c.waiting = false
	c.cond.Broadcast()
	c.mu.Unlock()
}

// feed hands bytes to the library side.
func (c *simConn) feed(b []byte) {
	c.mu.Lock()
	c.in.Write(b)
	c.waiting = false
	c.cond.Broadcast()
	c.mu.Unlock()
}

// takeOut returns and clears everything the library side wrote so far.
func (c *simConn) takeOut() []byte {
	c.mu.Lock()
	defer c.mu.Unlock()
	b := append([]byte(nil), c.out.Bytes()...)
	c.out.Reset()
	return b
}

// waitIdle blocks until the library side is blocked reading (with an empty
// inbound buffer) or has closed the connection. Returns false on timeout.
func (c *simConn) waitIdle(d time.Duration) bool {
	deadline := time.Now().Add(d)
	c.mu.Lock()
	defer c.mu.Unlock()
	for !(c.waiting || c.closedL) {
		if time.Now().After(deadline) {
			return false
		}
		// cond.Wait has no timeout: poll
		c.mu.Unlock()
		time.Sleep(20 * time.Microsecond)
		c.mu.Lock()
	}
	return true
}

func (c *simConn) isClosedL() bool {
	c.mu.Lock()
	defer c.mu.Unlock()
	return c.closedL
}

// srvConn ------------------------------------------------------------------

type srvRWC struct {
	r *bytes.Reader
	w bytes.Buffer
}

func (c *srvRWC) Read(p []byte) (int, error)         { return c.r.Read(p) }
func (c *srvRWC) Write(p []byte) (int, error)        { return c.w.Write(p) }
func (c *srvRWC) Close() error                       { return nil }
func (c *srvRWC) LocalAddr() net.Addr                { return simAddr("srv") }
func (c *srvRWC) RemoteAddr() net.Addr               { return simAddr("cli") }
func (c *srvRWC) SetDeadline(t time.Time) error      { return nil }
func (c *srvRWC) SetReadDeadline(t time.Time) error  { return nil }
func (c *srvRWC) SetWriteDeadline(t time.Time) error { return nil }

func newSrvConn(data []byte) (*conn, *srvRWC) {
	rwc := &srvRWC{r: bytes.NewReader(data)}
	return &conn{rwc: rwc, bufr: bufio.NewReader(rwc), bufw: bufio.NewWriter(rwc)}, rwc
}

func encodeResp(resp response) []byte {
	var b bytes.Buffer
	if err := resp.encode(&b); err != nil {
		panic(err)
	}
	return b.Bytes()
}
