package raft

// C18 harness: instantiates the vectors enumerated from Wire.tla (message type
// x value class per field) with representative values, runs the REAL codecs
// and reports, per vector, what WireObs.tla needs: round-trip equality of
// decode(encode(x) ++ tail), bytes produced/consumed, tail intact, and whether
// every (sampled) proper prefix yields an error instead of a value or a panic.

import (
	"bufio"
	"bytes"
	"encoding/json"
	"fmt"
	"io"
	"io/ioutil"
	"os"
	"reflect"
	"strings"
	"testing"
	"time"
)

type wireVec struct {
	Typ string   `json:"typ"`
	Vec []string `json:"vec"`
}

type wireReport struct {
	ID           int      `json:"id"`
	Typ          string   `json:"typ"`
	Vec          []string `json:"vec"`
	Rt           bool     `json:"rt"`
	Produced     int      `json:"produced"`
	Consumed     int      `json:"consumed"`
	TailIntact   bool     `json:"tailIntact"`
	PrefixesFail bool     `json:"prefixesFail"`
	Panicked     bool     `json:"panicked"`
	Note         string   `json:"note"`
}

func wU64(c string) uint64 {
	switch c {
	case "zero":
		return 0
	case "one":
		return 1
	case "p31":
		return 1 << 31
	case "maxi64":
		return 1<<63 - 1
	case "p63":
		return 1 << 63
	case "maxu64":
		return ^uint64(0)
	}
	panic("bad u64 class " + c)
}

func wBytes(c string) []byte {
	n := 0
	switch c {
	case "short":
		n = 7
	case "big":
		n = 70000
	}
	b := make([]byte, n)
	for i := range b {
		b[i] = byte(i*7 + 3)
	}
	return b
}

func wNodes(c string) map[uint64]Node {
	m := map[uint64]Node{}
	n := map[string]int{"n0": 0, "n1": 1, "n3": 3}[c]
	for i := 1; i <= n; i++ {
		m[uint64(i)] = Node{ID: uint64(i), Addr: fmt.Sprintf("n%d:7001", i), Voter: i%2 == 1, Action: Action(i % 4)}
	}
	return m
}

func wResp(term uint64, c string) resp {
	switch c {
	case "success":
		return resp{term, success, nil}
	case "staleTerm":
		return resp{term, staleTerm, nil}
	case "unexpectedErrOp":
		return resp{term, unexpectedErr, OpError{"Log.Get", fmt.Errorf("boom")}}
	case "unexpectedErrPlain":
		return resp{term, unexpectedErr, fmt.Errorf("boom")}
	}
	panic("bad resp class")
}

func wEntTyp(c string) entryType {
	switch c {
	case "barrier":
		return entryBarrier
	case "update":
		return entryUpdate
	case "read":
		return entryRead
	case "dirtyRead":
		return entryDirtyRead
	case "nop":
		return entryNop
	case "config":
		return entryConfig
	}
	return entryType(200)
}

type codec struct {
	enc func(w io.Writer) error
	dec func(r io.Reader) (interface{}, error)
	val interface{}
}

func normErr(e error) string {
	if e == nil {
		return ""
	}
	return fmt.Sprintf("%T:%v", e, e)
}

func normResp(r resp) string { return fmt.Sprintf("%d/%d/%s", r.term, r.result, normErr(r.err)) }

func normEntry(e *entry) string {
	return fmt.Sprintf("%d/%d/%d/%x", e.index, e.term, e.typ, string(e.data))
}

func normCfg(c Config) string {
	s := fmt.Sprintf("%d/%d/", c.Index, c.Term)
	for i := uint64(0); i < 8; i++ {
		if n, ok := c.Nodes[i]; ok {
			s += fmt.Sprintf("%d:%s:%v:%s:%d;", n.ID, n.Addr, n.Voter, n.Data, n.Action)
		}
	}
	return s
}

func buildCodec(v wireVec) (c codec, ok bool) {
	f := v.Vec
	switch v.Typ {
	case "identityReq":
		x := &identityReq{req{wU64(f[0]), wU64(f[1])}, wU64(f[2]), wU64(f[3])}
		return codec{x.encode, func(r io.Reader) (interface{}, error) { y := &identityReq{}; err := y.decode(r); return *y, err }, *x}, true
	case "voteReq":
		x := &voteReq{req{wU64(f[0]), wU64(f[1])}, wU64(f[2]), wU64(f[3]), f[4] == "true"}
		return codec{x.encode, func(r io.Reader) (interface{}, error) { y := &voteReq{}; err := y.decode(r); return *y, err }, *x}, true
	case "appendReq":
		x := &appendReq{req{wU64(f[0]), wU64(f[1])}, wU64(f[2]), wU64(f[3]), wU64(f[4]), wU64(f[5])}
		return codec{x.encode, func(r io.Reader) (interface{}, error) { y := &appendReq{}; err := y.decode(r); return *y, err }, *x}, true
	case "installSnapReq":
		x := &installSnapReq{req{wU64(f[0]), wU64(f[1])}, wU64(f[2]), wU64(f[3]), Config{Nodes: wNodes(f[4]), Index: 5, Term: 2}, int64(wU64(f[5]))}
		return codec{x.encode, func(r io.Reader) (interface{}, error) {
			y := &installSnapReq{}
			err := y.decode(r)
			return fmt.Sprintf("%v/%d/%d/%s/%d", y.req, y.lastIndex, y.lastTerm, normCfg(y.lastConfig), y.size), err
		}, fmt.Sprintf("%v/%d/%d/%s/%d", x.req, x.lastIndex, x.lastTerm, normCfg(x.lastConfig), x.size)}, true
	case "timeoutNowReq":
		x := &timeoutNowReq{req{wU64(f[0]), wU64(f[1])}}
		return codec{x.encode, func(r io.Reader) (interface{}, error) { y := &timeoutNowReq{}; err := y.decode(r); return *y, err }, *x}, true
	case "resp":
		x := &voteResp{wResp(wU64(f[0]), f[1])}
		return codec{x.encode, func(r io.Reader) (interface{}, error) { y := &voteResp{}; err := y.decode(r); return normResp(y.resp), err }, normResp(x.resp)}, true
	case "appendResp":
		x := &appendResp{wResp(wU64(f[0]), f[1]), wU64(f[2])}
		return codec{x.encode, func(r io.Reader) (interface{}, error) {
			y := &appendResp{}
			err := y.decode(r)
			return fmt.Sprintf("%s/%d", normResp(y.resp), y.lastLogIndex), err
		}, fmt.Sprintf("%s/%d", normResp(x.resp), x.lastLogIndex)}, true
	case "entry":
		x := &entry{wU64(f[0]), wU64(f[1]), wEntTyp(f[2]), wBytes(f[3])}
		return codec{x.encode, func(r io.Reader) (interface{}, error) { y := &entry{}; err := y.decode(r); return normEntry(y), err }, normEntry(x)}, true
	case "config":
		x := Config{Nodes: wNodes(f[2]), Index: wU64(f[0]), Term: wU64(f[1])}
		return codec{func(w io.Writer) error { return x.encode().encode(w) }, func(r io.Reader) (interface{}, error) {
			e := &entry{}
			if err := e.decode(r); err != nil {
				return nil, err
			}
			var y Config
			err := y.decode(e)
			return normCfg(y), err
		}, normCfg(x)}, true
	case "snapshotMeta":
		x := &snapshotMeta{wU64(f[0]), wU64(f[1]), Config{Nodes: wNodes(f[2]), Index: 3, Term: 1}, int64(wU64(f[3]))}
		return codec{x.encode, func(r io.Reader) (interface{}, error) {
			y := &snapshotMeta{}
			err := y.decode(r)
			return fmt.Sprintf("%d/%d/%s/%d", y.index, y.term, normCfg(y.config), y.size), err
		}, fmt.Sprintf("%d/%d/%s/%d", x.index, x.term, normCfg(x.config), x.size)}, true
	case "replication":
		x := &Replication{ID: wU64(f[0]), MatchIndex: wU64(f[1]), ErrMessage: string(wBytes(f[3])), Round: wU64(f[4])}
		if f[2] == "set" {
			t := time.Unix(0, 1234567890123)
			x.Unreachable = &t
		}
		norm := func(y *Replication) string {
			u := int64(0)
			if y.Unreachable != nil {
				u = y.Unreachable.UnixNano()
			}
			return fmt.Sprintf("%d/%d/%d/%x/%d", y.ID, y.MatchIndex, u, y.ErrMessage, y.Round)
		}
		return codec{x.encode, func(r io.Reader) (interface{}, error) { y := &Replication{}; err := y.decode(r); return norm(y), err }, norm(x)}, true
	}
	return codec{}, false
}

// prefix positions to try: all short ones, a sample of the long ones, the last few
func prefixCuts(n int) []int {
	var cuts []int
	for i := 0; i < n; i++ {
		if i < 96 || i > n-40 || i%1777 == 0 {
			cuts = append(cuts, i)
		}
	}
	return cuts
}

func runWireVec(id int, v wireVec) (rep wireReport) {
	rep = wireReport{ID: id, Typ: v.Typ, Vec: v.Vec}
	defer func() {
		if x := recover(); x != nil {
			rep.Panicked = true
			rep.Note = fmt.Sprintf("panic: %v", x)
		}
	}()
	switch v.Typ {
	case "valueFile":
		return runValueVec(rep, v)
	case "taskResp":
		return runTaskRespVec(rep, v)
	}
	c, ok := buildCodec(v)
	if !ok {
		rep.Note = "unknown type"
		return
	}
	var enc bytes.Buffer
	if err := c.enc(&enc); err != nil {
		rep.Note = "encode: " + err.Error()
		return
	}
	tail := []byte{0xde, 0xad, 0xbe, 0xef, 1, 2, 3, 4, 5, 6, 7, 8, 9}
	rep.Produced = enc.Len()
	stream := append(append([]byte{}, enc.Bytes()...), tail...)
	r := bytes.NewReader(stream)
	got, err := c.dec(r)
	if err != nil {
		rep.Note = "decode: " + err.Error()
		return
	}
	rep.Consumed = len(stream) - r.Len()
	rest, _ := ioutil.ReadAll(r)
	rep.TailIntact = bytes.Equal(rest, tail)
	rep.Rt = reflect.DeepEqual(got, c.val)
	if !rep.Rt {
		rep.Note = strings.TrimSpace(fmt.Sprintf("got %.80v want %.80v", got, c.val))
	}
	// the same through a bufio.Reader, as the connection code reads it
	if v.Typ == "entry" {
		br := bufio.NewReader(bytes.NewReader(stream))
		_ = isEntryBuffered(br)
		if g2, e2 := c.dec(br); e2 != nil || !reflect.DeepEqual(g2, c.val) {
			rep.Rt = false
			rep.Note = "bufio path differs"
		}
	}
	rep.PrefixesFail = true
	for _, cut := range prefixCuts(enc.Len()) {
		func() {
			defer func() {
				if x := recover(); x != nil {
					rep.PrefixesFail = false
					rep.Note = fmt.Sprintf("prefix %d panics: %v", cut, x)
				}
			}()
			if _, e := c.dec(bytes.NewReader(enc.Bytes()[:cut])); e == nil {
				rep.PrefixesFail = false
				if rep.Note == "" {
					rep.Note = fmt.Sprintf("prefix of %d bytes (of %d) decodes without error", cut, enc.Len())
				}
			}
		}()
	}
	return
}

// persisted 64-bit values: written with value.set, read back by openValue (file-name encoding)
func runValueVec(rep wireReport, v wireVec) wireReport {
	dir, err := ioutil.TempDir(os.Getenv("VERIF_TMP"), "val")
	if err != nil {
		rep.Note = err.Error()
		return rep
	}
	defer os.RemoveAll(dir)
	v1, v2 := wU64(v.Vec[0]), wU64(v.Vec[1])
	val, err := openValue(dir, ".term")
	if err != nil {
		rep.Note = "openValue: " + err.Error()
		return rep
	}
	if err := val.set(v1, v2); err != nil {
		rep.Note = "set: " + err.Error()
		return rep
	}
	back, err := openValue(dir, ".term")
	if err != nil {
		rep.Note = "reopen: " + err.Error()
		return rep
	}
	g1, g2 := back.get()
	rep.Rt = g1 == v1 && g2 == v2
	if !rep.Rt {
		rep.Note = fmt.Sprintf("wrote (%d,%d) read (%d,%d)", v1, v2, g1, g2)
	}
	rep.TailIntact, rep.PrefixesFail = true, true
	return rep
}

type wireTask struct {
	*task
}

func runTaskRespVec(rep wireReport, v wireVec) wireReport {
	kind := v.Vec[0]
	t := &task{done: make(chan struct{})}
	typ := taskChangeConfig
	ldr := Node{ID: 3, Addr: "n3:7001", Voter: true, Data: "x"}
	var recog func(res interface{}, err error) bool
	sentinel := map[string]error{"errServerClosed": ErrServerClosed, "errNodeRemoved": ErrNodeRemoved, "errStaleConfig": ErrStaleConfig,
		"errQuorumUnreachable": ErrQuorumUnreachable, "errSnapshotThreshold": ErrSnapshotThreshold, "errNoUpdates": ErrNoUpdates,
		"errTransferNoVoter": ErrTransferNoVoter, "errTransferSelf": ErrTransferSelf, "errTransferTargetNonvoter": ErrTransferTargetNonvoter,
		"errTransferInvalidTarget": ErrTransferInvalidTarget, "errNotCommitReady": ErrNotCommitReady}
	switch {
	case kind == "nil":
		t.result = nil
		recog = func(res interface{}, err error) bool { return res == nil && err == nil }
	case kind == "u64":
		typ = taskTakeSnapshot
		t.result = wU64(v.Vec[1])
		recog = func(res interface{}, err error) bool { return err == nil && res == wU64(v.Vec[1]) }
	case kind == "config":
		typ = taskWaitForStableConfig
		cfg := Config{Nodes: wNodes("n3"), Index: wU64(v.Vec[1]), Term: 2}
		t.result = cfg
		recog = func(res interface{}, err error) bool {
			c, ok := res.(Config)
			return err == nil && ok && normCfg(c) == normCfg(cfg)
		}
	case strings.HasPrefix(kind, "notLeader"):
		e := NotLeaderError{Lost: strings.HasSuffix(kind, "Lost")}
		if strings.Contains(kind, "Known") {
			e.Leader = ldr
		}
		t.result = e
		recog = func(res interface{}, err error) bool {
			g, ok := err.(NotLeaderError)
			return ok && g.Lost == e.Lost && g.Leader.ID == e.Leader.ID && g.Leader.Addr == e.Leader.Addr
		}
	case kind == "inProgress":
		t.result = InProgressError("configChange")
		recog = func(res interface{}, err error) bool { _, ok := err.(InProgressError); return ok }
	default:
		s, ok := sentinel[kind]
		if !ok {
			rep.Note = "unknown task class"
			return rep
		}
		t.result = s
		recog = func(res interface{}, err error) bool {
			if err != s {
				return false
			}
			if kind == "errNotCommitReady" {
				_, tmp := err.(TemporaryError)
				return tmp
			}
			return true
		}
	}
	var enc bytes.Buffer
	if err := encodeTaskResp(wireTask{t}, &enc); err != nil {
		rep.Note = "encode: " + err.Error()
		return rep
	}
	tail := []byte{9, 8, 7, 6, 5, 4, 3, 2, 1}
	rep.Produced = enc.Len()
	stream := append(append([]byte{}, enc.Bytes()...), tail...)
	r := bytes.NewReader(stream)
	res, err := decodeTaskResp(typ, r)
	rep.Consumed = len(stream) - r.Len()
	rest, _ := ioutil.ReadAll(r)
	rep.TailIntact = bytes.Equal(rest, tail)
	rep.Rt = recog(res, err)
	if !rep.Rt {
		rep.Note = fmt.Sprintf("decoded (%v, %T %v)", res, err, err)
	}
	rep.PrefixesFail = true
	for _, cut := range prefixCuts(enc.Len()) {
		func() {
			defer func() {
				if x := recover(); x != nil {
					rep.PrefixesFail = false
				}
			}()
			rr := bytes.NewReader(enc.Bytes()[:cut])
			g, e := decodeTaskResp(typ, rr)
			// a truncated response must not be taken for the complete answer
			if recog(g, e) && enc.Len() > cut && !(kind == "nil") {
				rep.PrefixesFail = false
				rep.Note = fmt.Sprintf("prefix of %d bytes (of %d) is recognised as the full response", cut, enc.Len())
			}
		}()
	}
	return rep
}

func TestVerifWire(t *testing.T) {
	in, outFile := os.Getenv("VERIF_VECS"), os.Getenv("VERIF_OUT")
	if in == "" || outFile == "" {
		t.Skip("VERIF_VECS / VERIF_OUT not set")
	}
	f, err := os.Open(in)
	if err != nil {
		t.Fatal(err)
	}
	defer f.Close()
	of, err := os.Create(outFile)
	if err != nil {
		t.Fatal(err)
	}
	defer of.Close()
	w := bufio.NewWriterSize(of, 1<<20)
	defer w.Flush()
	enc := json.NewEncoder(w)
	sc := bufio.NewScanner(f)
	sc.Buffer(make([]byte, 1<<20), 1<<24)
	id := 0
	for sc.Scan() {
		if len(sc.Bytes()) == 0 {
			continue
		}
		var v wireVec
		if err := json.Unmarshal(sc.Bytes(), &v); err != nil {
			fmt.Fprintln(os.Stderr, "HARNESS-ERROR bad vector:", err)
			os.Exit(3)
		}
		id++
		rep := runWireVec(id, v)
		if rep.Vec == nil {
			rep.Vec = []string{}
		}
		_ = enc.Encode(rep)
	}
	fmt.Printf("VERIF-WIRE vectors=%d\n", id)
}
