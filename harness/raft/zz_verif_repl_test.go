package raft

// Layer-1: the replication "process" (leader i -> follower j).
//
// The real replication.runLoop goroutine is parked by verifReplHook; the
// harness calls the real methods of the real *replication object
// (writeAppendEntriesReq, onAppendEntriesResp, onLeaderUpdate, notifyLdr,
// sendInstallSnapReq) and mirrors only the control flow of runLoop/replicate
// (probe -> pipeline -> drain, connection failures, back-off notifications).

import (
	"bufio"
	"bytes"
	"fmt"
	"runtime/debug"
	"time"

	"github.com/santhosh-tekuri/raft/log"
)

const (
	modeProbe = "probe"
	modePipe  = "pipe"
	modeDrain = "drain"
)

type flight struct {
	kind    string // "append" | "snap"
	data    []byte // request bytes as written by the real encoder (without the rpc type byte)
	term    uint64
	prev    uint64
	prevT   uint64
	n       uint64
	commit  uint64
	reqLast uint64
	snapIdx uint64
	snapT   uint64
	// response (after the server handled it)
	resp     []byte
	result   rpcResult
	respTerm uint64
	respLast uint64
}

type replConn struct {
	id       int
	from, to uint64
	cc       *conn
	sc       *simConn
	reqs     []*flight // written, not yet handled by the server (FIFO)
	resps    []*flight // handled, response not yet read by the client (FIFO)
	peerDead bool      // server side process died: nothing will be handled or answered
	orphan   bool      // client side gone (conn failure or leader died): responses go nowhere
}

type simRepl struct {
	ldr      *simNode
	ldrInc   int
	to       uint64
	r        *replication
	req      *appendReq
	conn     *replConn
	mode     string
	failures uint64
	ended    bool
	canWrite bool // pipeline: writer may write even when nothing new (first write / update polled)
	snapBusy chan error
}

func (c *simCluster) ensureRepl(n *simNode, id uint64, repl *replication) *simRepl {
	for _, sr := range c.repls {
		if sr.r == repl {
			return sr
		}
	}
	deadline := time.Now().Add(simWait)
	for {
		c.mu.Lock()
		req, ok := c.parked[repl]
		c.mu.Unlock()
		if ok {
			sr := &simRepl{ldr: n, ldrInc: n.inc, to: id, r: repl, req: req, mode: modeProbe}
			c.repls = append(c.repls, sr)
			return sr
		}
		if time.Now().After(deadline) {
			panic(harnessStuck("replication goroutine did not reach the park hook"))
		}
		time.Sleep(20 * time.Microsecond)
	}
}

func (c *simCluster) findRepl(i, j uint64) *simRepl {
	n := c.nodes[i]
	if n == nil || !n.up || n.cur != Leader {
		return nil
	}
	repl, ok := n.l.repls[j]
	if !ok {
		return nil
	}
	sr := c.ensureRepl(n, j, repl)
	if sr.ended {
		return nil
	}
	// the leader stopped this replication (removed node)
	select {
	case <-repl.stopCh:
		sr.ended = true
		return nil
	default:
	}
	return sr
}

// poll mirrors the non-blocking arm of replication.checkLeaderUpdate.
func (sr *simRepl) poll() bool {
	select {
	case u := <-sr.r.leaderUpdateCh:
		sr.r.onLeaderUpdate(u, sr.req)
		return true
	default:
		return false
	}
}

// guard runs a piece of the replication goroutine; a panic there is reported
// to the leader by runLoop's recover (notifyLdr(recoverErr(v))), and
// recoverErr re-panics for assertions, bugs and runtime errors: process death.
func (sr *simRepl) guard(fn func()) (died bool) {
	n := sr.ldr
	defer func() {
		if v := recover(); v != nil {
			if hs, ok := v.(harnessStuck); ok {
				panic(hs)
			}
			died = true
			sr.ended = true
			func() {
				defer func() {
					if v2 := recover(); v2 != nil {
						n.died = "replication"
						n.c.note(map[string]interface{}{"kind": "panic", "n": n.id, "text": fmt.Sprintf("replication goroutine: %v", v2), "stack": trimStack(string(debug.Stack()))})
						n.kill()
					}
				}()
				err := recoverErr(v)
				sr.r.notifyLdr(err)
			}()
		}
	}()
	fn()
	return false
}

func (sr *simRepl) fail(err error) {
	// replicate() returned an error: runLoop closes the conn, failures++,
	// and at the top of the next iteration notifies noContact once.
	if sr.snapBusy != nil && sr.conn != nil {
		// the snapshot sender blocked reading its response sees the connection die
		sr.conn.sc.closeRemote()
		sr.snapBusy = nil
	}
	if sr.conn != nil {
		sr.conn.orphan = true
		if len(sr.conn.reqs) > 0 {
			sr.ldr.c.orphans = append(sr.ldr.c.orphans, sr.conn)
		}
		sr.conn = nil
	}
	sr.failures++
	sr.mode = modeProbe
	if sr.failures == 1 {
		sr.r.notifyNoContact(err)
	}
}

// stepSend: one write by the replication goroutine (connecting first if needed).
func (c *simCluster) stepReplSend(i, j uint64, dialFail bool) map[string]interface{} {
	sr := c.findRepl(i, j)
	if sr == nil {
		return skipped("no such replication")
	}
	if sr.snapBusy != nil {
		return skipped("snapshot in flight")
	}
	ev := map[string]interface{}{"kind": "replSend", "i": i, "j": j}
	if dialFail && sr.conn != nil {
		return skipped("connection is open")
	}
	died := sr.guard(func() {
		r := sr.r
		if sr.conn == nil {
			// runLoop: (after a failure) checkLeaderUpdate, then getConn
			if sr.failures > 0 {
				sr.poll()
			}
			target := c.nodes[j]
			ok := target != nil && target.up && !dialFail
			if dialFail {
				ev["dialFail"] = true
			}
			if ok {
				ok = c.identityHandshake(i, target)
			}
			if !ok {
				ev["connect"] = "failed"
				sr.failures++
				if sr.failures == 1 {
					r.notifyNoContact(IdentityError{c.cid, j, simAddrOf(j)})
				}
				return
			}
			ev["connect"] = "ok"
			c.connSeq++
			sc := newSimConn(i, j)
			sr.conn = &replConn{id: c.connSeq, from: i, to: j, sc: sc,
				cc: &conn{rwc: sc, bufr: bufio.NewReader(sc), bufw: bufio.NewWriter(sc)}}
			sr.mode = modeProbe
			if sr.failures > 0 {
				sr.failures = 0
				r.notifyNoContact(nil)
				sr.poll()
			}
		}
		if c.eager.Poll {
			// pipeline writer: checkLeaderUpdate returned ldrUpdate=true, so it writes even when nothing is new
			if sr.poll() && sr.mode == modePipe {
				sr.canWrite = true
			}
		}
		assert(r.matchIndex < r.nextIndex)
		switch sr.mode {
		case modeProbe:
			if len(sr.conn.reqs)+len(sr.conn.resps) > 0 {
				ev["skipped"] = "probe outstanding"
				return
			}
			err := r.writeAppendEntriesReq(sr.conn.cc, sr.req, false)
			if err == log.ErrNotFound {
				ev["needSnap"] = true
				c.sendSnap(sr, ev)
				return
			}
			if err != nil {
				ev["err"] = err.Error()
				sr.fail(err)
				return
			}
			c.captureAppend(sr, ev)
		case modePipe:
			if !(sr.canWrite || r.nextIndex <= r.ldrLastIndex || len(sr.conn.reqs)+len(sr.conn.resps) == 0) {
				ev["skipped"] = "pipeline writer waiting"
				return
			}
			if r.nextIndex > r.ldrLastIndex && !r.node.Voter && !sr.canWrite {
				ev["skipped"] = "no heartbeats to nonvoter"
				return
			}
			sr.canWrite = false
			err := r.writeAppendEntriesReq(sr.conn.cc, sr.req, true)
			if err == log.ErrNotFound {
				// pipeline ends; replicate() loops back to probing
				ev["needSnap"] = true
				sr.mode = modeDrain
				sr.drainThenProbe()
				return
			}
			if err != nil {
				ev["err"] = err.Error()
				sr.fail(err)
				return
			}
			c.captureAppend(sr, ev)
		default:
			ev["skipped"] = "draining"
		}
	})
	if died {
		ev["died"] = true
	}
	c.afterRepl(sr)
	return ev
}

func (sr *simRepl) drainThenProbe() {
	if sr.conn != nil && len(sr.conn.reqs)+len(sr.conn.resps) == 0 {
		sr.mode = modeProbe
	}
}

func (c *simCluster) captureAppend(sr *simRepl, ev map[string]interface{}) {
	data := sr.conn.sc.takeOut()
	if len(data) == 0 || rpcType(data[0]) != rpcAppendEntries {
		panic(harnessStuck("append request bytes missing"))
	}
	req := &appendReq{}
	if err := req.decode(bytes.NewReader(data[1:])); err != nil {
		panic(harnessStuck("append request decode: " + err.Error()))
	}
	f := &flight{kind: "append", data: data[1:], term: req.term, prev: req.prevLogIndex, prevT: req.prevLogTerm,
		n: req.numEntries, commit: req.ldrCommitIndex, reqLast: sr.r.nextIndex - 1}
	if sr.mode == modeProbe {
		f.reqLast = req.prevLogIndex
	}
	sr.conn.reqs = append(sr.conn.reqs, f)
	ev["conn"] = sr.conn.id
	ev["mode"] = sr.mode
	ev["req"] = map[string]interface{}{"term": f.term, "prev": f.prev, "prevTerm": f.prevT, "n": f.n, "commit": f.commit}
}

// identityHandshake plays connPool.getConn's identity RPC against the real
// server-side handler of the target.
func (c *simCluster) identityHandshake(from uint64, target *simNode) bool {
	req := &identityReq{req: req{src: from}, cid: c.cid, nid: target.id}
	sconn, _ := newSrvConn(nil)
	rpcObj := &rpc{req: req, conn: sconn, done: make(chan struct{})}
	target.event(func() {
		reset := target.r.replyRPC(rpcObj)
		if target.r.state == Follower && reset {
			target.f.resetTimer()
		}
	})
	if !target.up || rpcObj.resp == nil {
		return false
	}
	ok := rpcObj.resp.getResult() == success
	if ok {
		target.peers[from] = true
	}
	return ok
}

// deliver the head request of a connection to the server side.
func (c *simCluster) stepAppendReq(i, j uint64, connID int) map[string]interface{} {
	rc := c.findConn(i, j, connID)
	if rc == nil || len(rc.reqs) == 0 {
		return skipped("no such request")
	}
	target := c.nodes[j]
	f := rc.reqs[0]
	rc.reqs = rc.reqs[1:]
	ev := map[string]interface{}{"kind": f.kind + "Req", "i": i, "j": j, "conn": rc.id,
		"req": map[string]interface{}{"term": f.term, "prev": f.prev, "prevTerm": f.prevT, "n": f.n, "commit": f.commit, "snapIndex": f.snapIdx, "snapTerm": f.snapT}}
	if target == nil || !target.up || rc.peerDead {
		ev["lost"] = true
		return ev
	}
	var rq request
	if f.kind == "append" {
		rq = &appendReq{}
	} else {
		rq = &installSnapReq{}
	}
	sconn, _ := newSrvConn(f.data)
	rpcObj := &rpc{req: rq, conn: sconn, done: make(chan struct{})}
	inc := target.inc
	target.event(func() {
		reset := target.r.replyRPC(rpcObj)
		if target.r.state == Follower && reset {
			target.f.resetTimer()
		}
	})
	if rpcObj.resp != nil {
		f.resp = encodeResp(rpcObj.resp)
		f.result = rpcObj.resp.getResult()
		f.respTerm = rpcObj.resp.getTerm()
		if ar, ok := rpcObj.resp.(*appendResp); ok {
			f.respLast = ar.lastLogIndex
		}
		ev["result"] = resultName(f.result)
		ev["respTerm"] = f.respTerm
		ev["respLast"] = f.respLast
	}
	if !target.up || target.inc != inc || rpcObj.readErr != nil || rpcObj.resp == nil {
		// handler died or read error: handleConn returns, connection closed
		rc.peerDead = true
		rc.reqs = nil
		ev["connClosed"] = true
		return ev
	}
	if !rc.orphan {
		rc.resps = append(rc.resps, f)
	}
	if c.eager.Fsm {
		target.fsmDrain()
	}
	return ev
}

func (c *simCluster) findConn(i, j uint64, connID int) *replConn {
	if connID == 0 {
		if sr := c.findRepl(i, j); sr != nil && sr.conn != nil {
			return sr.conn
		}
		// fall through: maybe an orphan
	}
	for _, sr := range c.repls {
		if sr.conn != nil && sr.conn.from == i && sr.conn.to == j && (connID == 0 || sr.conn.id == connID) && !sr.ended {
			return sr.conn
		}
	}
	for _, oc := range c.orphans {
		if oc.from == i && oc.to == j && (connID == 0 || oc.id == connID) && len(oc.reqs) > 0 {
			return oc
		}
	}
	for _, sr := range c.repls {
		if sr.conn != nil && sr.conn.from == i && sr.conn.to == j && (connID == 0 || sr.conn.id == connID) && len(sr.conn.reqs) > 0 {
			return sr.conn
		}
	}
	return nil
}

// deliver the head response to the replication goroutine.
func (c *simCluster) stepAppendResp(i, j uint64) map[string]interface{} {
	sr := c.findRepl(i, j)
	if sr == nil || sr.conn == nil || len(sr.conn.resps) == 0 {
		return skipped("no such response")
	}
	f := sr.conn.resps[0]
	sr.conn.resps = sr.conn.resps[1:]
	ev := map[string]interface{}{"kind": f.kind + "Resp", "i": i, "j": j, "conn": sr.conn.id, "mode": sr.mode,
		"result": resultName(f.result), "respTerm": f.respTerm, "respLast": f.respLast, "reqLast": f.reqLast}
	died := sr.guard(func() {
		r := sr.r
		if f.kind == "snap" {
			c.snapResp(sr, f, ev)
			return
		}
		resp := &appendResp{}
		if err := resp.decode(bytes.NewReader(f.resp)); err != nil {
			panic(harnessStuck("appendResp decode: " + err.Error()))
		}
		switch sr.mode {
		case modeProbe:
			err := r.onAppendEntriesResp(resp, r.nextIndex-1)
			if err == errStop {
				sr.ended = true
				return
			}
			if err != nil {
				ev["err"] = err.Error()
				if re, ok := err.(remoteError); ok {
					err = re.error
				}
				sr.fail(err)
				return
			}
			sr.poll()
			if r.matchIndex+1 == r.nextIndex {
				if r.nextIndex < r.ldrLastIndex && !r.log.Contains(r.nextIndex) {
					ev["needSnap"] = true
					c.sendSnap(sr, ev)
					return
				}
				sr.mode = modePipe
				sr.canWrite = true
			}
		case modePipe:
			if resp.result == success {
				_ = r.onAppendEntriesResp(resp, f.reqLast)
			} else if resp.result == staleTerm {
				_ = r.onAppendEntriesResp(resp, f.reqLast)
				sr.ended = true
			} else {
				sr.mode = modeDrain
				sr.drainThenProbe()
			}
		case modeDrain:
			sr.drainThenProbe()
		}
	})
	if died {
		ev["died"] = true
	}
	c.afterRepl(sr)
	return ev
}

// a connection failure observed by the replication goroutine
func (c *simCluster) stepReplFail(i, j uint64) map[string]interface{} {
	sr := c.findRepl(i, j)
	if sr == nil || sr.conn == nil {
		return skipped("no connection")
	}
	ev := map[string]interface{}{"kind": "replFail", "i": i, "j": j, "conn": sr.conn.id}
	sr.guard(func() { sr.fail(fmt.Errorf("sim: connection reset")) })
	c.afterRepl(sr)
	return ev
}

func (c *simCluster) stepReplPoll(i, j uint64) map[string]interface{} {
	sr := c.findRepl(i, j)
	if sr == nil {
		return skipped("no such replication")
	}
	ev := map[string]interface{}{"kind": "replPoll", "i": i, "j": j}
	sr.guard(func() {
		if sr.poll() {
			ev["got"] = true
			if sr.mode == modePipe {
				sr.canWrite = true
			}
		}
	})
	c.afterRepl(sr)
	return ev
}

// afterRepl: in eager mode the leader consumes replication updates at once.
func (c *simCluster) afterRepl(sr *simRepl) {
	if c.eager.Ldr {
		c.ldrUpdates(sr.ldr)
	}
}

func (c *simCluster) ldrUpdates(n *simNode) bool {
	if !n.up || n.cur != Leader || n.l.replUpdateCh == nil {
		return false
	}
	select {
	case u := <-n.l.replUpdateCh:
		n.event(func() { n.l.checkReplUpdates(u) })
		if c.eager.Fsm && n.up {
			n.fsmDrain()
		}
		return true
	default:
		return false
	}
}

func (c *simCluster) stepLdrUpdates(id uint64) map[string]interface{} {
	n := c.nodes[id]
	if n == nil || !c.ldrUpdates(n) {
		return skipped("nothing queued")
	}
	return map[string]interface{}{"kind": "ldrUpdates", "n": id}
}

// snapshot installation -----------------------------------------------------------

func (c *simCluster) sendSnap(sr *simRepl, ev map[string]interface{}) {
	done := make(chan error, 1)
	sc := sr.conn.sc
	go func() {
		defer func() {
			if v := recover(); v != nil {
				done <- fmt.Errorf("panic: %v", v)
			}
		}()
		done <- sr.r.sendInstallSnapReq(sr.conn.cc, sr.req)
	}()
	// wait until the request and the snapshot data are written
	deadline := time.Now().Add(simWait)
	for {
		select {
		case err := <-done:
			ev["err"] = fmt.Sprint(err)
			if _, ok := err.(OpError); ok {
				panic(err)
			}
			sr.fail(err)
			return
		default:
		}
		if sc.waitIdle(time.Millisecond) {
			break
		}
		if time.Now().After(deadline) {
			panic(harnessStuck("sendInstallSnapReq did not block"))
		}
	}
	data := sc.takeOut()
	if len(data) == 0 || rpcType(data[0]) != rpcInstallSnap {
		panic(harnessStuck(fmt.Sprintf("installSnap request bytes missing: len=%d first=%v closedL=%v closedR=%v", len(data), data[:minInt(len(data), 4)], sc.isClosedL(), sc.closedR)))
	}
	req := &installSnapReq{}
	if err := req.decode(bytes.NewReader(data[1:])); err != nil {
		panic(harnessStuck("installSnap decode: " + err.Error()))
	}
	f := &flight{kind: "snap", data: data[1:], term: req.term, snapIdx: req.lastIndex, snapT: req.lastTerm}
	sr.conn.reqs = append(sr.conn.reqs, f)
	sr.snapBusy = done
	sr.mode = "snap"
	ev["conn"] = sr.conn.id
	ev["snap"] = map[string]interface{}{"term": f.term, "index": f.snapIdx, "snapTerm": f.snapT, "size": req.size}
}

func (c *simCluster) snapResp(sr *simRepl, f *flight, ev map[string]interface{}) {
	done := sr.snapBusy
	sr.snapBusy = nil
	if done == nil {
		panic(harnessStuck("snapshot response without sender"))
	}
	// the sender may spin in checkLeaderUpdate until its view covers the snapshot
	sr.conn.sc.feed(f.resp)
	var err error
	deadline := time.Now().Add(simWait)
loop:
	for {
		select {
		case err = <-done:
			break loop
		case <-time.After(2 * time.Millisecond):
			if time.Now().After(deadline) {
				panic(harnessStuck("sendInstallSnapReq did not finish"))
			}
		}
	}
	if err == errStop {
		sr.ended = true
		return
	}
	if err != nil {
		ev["err"] = err.Error()
		if _, ok := err.(OpError); ok {
			panic(err)
		}
		if re, ok := err.(remoteError); ok {
			err = re.error
		}
		sr.fail(err)
		return
	}
	// replicate(): `continue` -> probing again
	sr.mode = modeProbe
}

var _ = time.Now

func minInt(a, b int) int {
	if a < b {
		return a
	}
	return b
}
