-------------------------------- MODULE Wire --------------------------------
(***************************************************************************)
(* Wire / on-disk grammar of santhosh-tekuri/raft (property C18).          *)
(*                                                                         *)
(* Every message, log entry, configuration, snapshot label, status report  *)
(* and task response is a sequence of typed fields (binary.go: u8, u32     *)
(* length prefixes, u64 little endian, bool, bytes, string; an entry is    *)
(* index,term,type,data; a configuration travels inside an entry).         *)
(* The specification contributes (a) the grammar, (b) the finite set of    *)
(* value CLASSES per field kind, (c) the exact encoded length EncLen of a  *)
(* vector. TLC enumerates every vector (message type x class assignment):  *)
(* each initial state is one implementation test.  The Go harness          *)
(* instantiates the classes with representative values, runs the REAL      *)
(* codecs and reports per vector: round trip equality of                   *)
(* decode(encode(x) ++ tail), bytes consumed, and whether every proper     *)
(* prefix yields an error. WireObs then evaluates the predicates below on  *)
(* those reports, with EncLen computed HERE.                               *)
(***************************************************************************)
EXTENDS Integers, Sequences, FiniteSets, TLC

\* field kinds and their value classes
U64C  == {"zero", "one", "p31", "maxi64", "p63", "maxu64"}
U64S  == {"zero", "p63", "maxu64"}                 \* reduced set for wide messages
BoolC == {"false", "true"}
LenC  == {"empty", "short", "big"}                 \* bytes / strings: 0, 7, 70000 bytes
NodesC == {"n0", "n1", "n3"}                       \* nodes per configuration
ResC  == {"success", "staleTerm", "unexpectedErrOp", "unexpectedErrPlain"}
EntTypC == {"barrier", "update", "read", "dirtyRead", "nop", "config", "unknown200"}

ByteLen(c) == IF c = "empty" THEN 0 ELSE IF c = "short" THEN 7 ELSE 70000
NumNodes(c) == IF c = "n0" THEN 0 ELSE IF c = "n1" THEN 1 ELSE 3
\* a node in the harness: id u64, addr "n<k>:7001" (7 bytes), voter bool, data "" , action u8
NodeLen == 8 + (4 + 7) + 1 + (4 + 0) + 1
CfgDataLen(c) == 4 + NumNodes(c) * NodeLen
EntryLen(dataLen) == 8 + 8 + 1 + 4 + dataLen
\* resp: term u64, result u8, and for unexpectedErr: op string, error string (harness: op "Log.Get" 7 bytes or "", error "boom" 4 bytes)
RespLen(c) == 8 + 1 + (IF c = "unexpectedErrOp" THEN (4 + 7) + (4 + 4) ELSE IF c = "unexpectedErrPlain" THEN (4 + 0) + (4 + 4) ELSE 0)

\* grammar: type -> sequence of [name, kind]
Grammar == [
    identityReq    |-> <<[n |-> "term", k |-> "u64"], [n |-> "src", k |-> "u64"], [n |-> "cid", k |-> "u64"], [n |-> "nid", k |-> "u64"]>>,
    voteReq        |-> <<[n |-> "term", k |-> "u64"], [n |-> "src", k |-> "u64"], [n |-> "lastLogIndex", k |-> "u64"], [n |-> "lastLogTerm", k |-> "u64"], [n |-> "transfer", k |-> "bool"]>>,
    appendReq      |-> <<[n |-> "term", k |-> "u64s"], [n |-> "src", k |-> "u64s"], [n |-> "prevLogIndex", k |-> "u64s"], [n |-> "prevLogTerm", k |-> "u64s"], [n |-> "ldrCommitIndex", k |-> "u64s"], [n |-> "numEntries", k |-> "u64s"]>>,
    installSnapReq |-> <<[n |-> "term", k |-> "u64s"], [n |-> "src", k |-> "u64s"], [n |-> "lastIndex", k |-> "u64s"], [n |-> "lastTerm", k |-> "u64s"], [n |-> "lastConfig", k |-> "cfg"], [n |-> "size", k |-> "i64"]>>,
    timeoutNowReq  |-> <<[n |-> "term", k |-> "u64"], [n |-> "src", k |-> "u64"]>>,
    resp           |-> <<[n |-> "term", k |-> "u64"], [n |-> "result", k |-> "res"]>>,
    appendResp     |-> <<[n |-> "term", k |-> "u64"], [n |-> "result", k |-> "res"], [n |-> "lastLogIndex", k |-> "u64"]>>,
    entry          |-> <<[n |-> "index", k |-> "u64"], [n |-> "term", k |-> "u64"], [n |-> "typ", k |-> "etyp"], [n |-> "data", k |-> "bytes"]>>,
    config         |-> <<[n |-> "index", k |-> "u64"], [n |-> "term", k |-> "u64"], [n |-> "nodes", k |-> "nodes"]>>,
    snapshotMeta   |-> <<[n |-> "index", k |-> "u64"], [n |-> "term", k |-> "u64"], [n |-> "config", k |-> "cfg"], [n |-> "size", k |-> "i64"]>>,
    replication    |-> <<[n |-> "id", k |-> "u64s"], [n |-> "matchIndex", k |-> "u64s"], [n |-> "unreachable", k |-> "time"], [n |-> "errMessage", k |-> "str"], [n |-> "round", k |-> "u64s"]>>,
    valueFile      |-> <<[n |-> "v1", k |-> "u64"], [n |-> "v2", k |-> "u64"]>>,
    taskResp       |-> <<[n |-> "kind", k |-> "task"], [n |-> "val", k |-> "u64"]>>
]
\* task responses: results and the error kinds a client must be able to recognise
TaskC == {"nil", "u64", "config", "notLeaderKnown", "notLeaderKnownLost", "notLeaderUnknown", "notLeaderUnknownLost", "inProgress",
          "errServerClosed", "errNodeRemoved", "errStaleConfig", "errQuorumUnreachable", "errSnapshotThreshold", "errNoUpdates",
          "errTransferNoVoter", "errTransferSelf", "errTransferTargetNonvoter", "errTransferInvalidTarget", "errNotCommitReady"}

Types == DOMAIN Grammar
LenTypes == Types \ {"valueFile", "taskResp"}

Classes(k) == IF k = "u64" THEN U64C
              ELSE IF k \in {"u64s", "i64"} THEN U64S
              ELSE IF k = "bool" THEN BoolC
              ELSE IF k \in {"bytes", "str"} THEN LenC
              ELSE IF k \in {"cfg", "nodes"} THEN NodesC
              ELSE IF k = "res" THEN ResC
              ELSE IF k = "etyp" THEN EntTypC
              ELSE IF k = "time" THEN {"zero", "set"}
              ELSE IF k = "task" THEN TaskC
              ELSE {}

FieldLen(k, c) == IF k \in {"u64", "u64s", "i64", "time"} THEN 8
                  ELSE IF k \in {"bool", "etyp"} THEN 1
                  ELSE IF k \in {"bytes", "str"} THEN 4 + ByteLen(c)
                  ELSE IF k = "cfg" THEN EntryLen(CfgDataLen(c))      \* a configuration travels as an entry
                  ELSE IF k = "nodes" THEN 1 + 4 + CfgDataLen(c)        \* (inside its own entry: typ + data)
                  ELSE IF k = "res" THEN RespLen(c) - 8
                  ELSE 0

RECURSIVE SumLen(_, _, _)
SumLen(g, v, i) == IF i > Len(g) THEN 0 ELSE FieldLen(g[i].k, v[i]) + SumLen(g, v, i + 1)
\* exact number of bytes the encoding of vector v of type t occupies on the wire / on disk
EncLen(t, v) == IF t = "valueFile" THEN 0 ELSE SumLen(Grammar[t], v, 1)

Vectors(t) == {v \in [1..Len(Grammar[t]) -> UNION {Classes(Grammar[t][i].k) : i \in 1..Len(Grammar[t])}] :
                   \A i \in 1..Len(Grammar[t]) : v[i] \in Classes(Grammar[t][i].k)}

VARIABLES typ, vec
Init == typ \in Types /\ vec \in Vectors(typ)
Next == UNCHANGED <<typ, vec>>

--------------------------------------------------------------------------
(* predicates evaluated on the harness report r of a vector                *)
(*  r = [typ, vec, rt (decoded = encoded value), consumed, tailIntact,     *)
(*       prefixesFail (every proper prefix gave an error), panicked]       *)
C18_RoundTrip(r)     == r.rt /\ ~r.panicked
C18_Framing(r)       == r.typ = "valueFile" \/ (/\ r.consumed = r.produced /\ r.tailIntact
                                                /\ (r.typ \in LenTypes => r.produced = EncLen(r.typ, r.vec)))
C18_TruncatedFail(r) == r.typ = "valueFile" \/ r.prefixesFail
=============================================================================
