-------------------------------- MODULE Raft --------------------------------
(***************************************************************************)
(* santhosh-tekuri/raft AS IMPLEMENTED (not Raft-the-paper).               *)
(*                                                                         *)
(* Structure follows the code: node-local logic is written as pure         *)
(* operators over a per-node record `s`, one operator per Go function,     *)
(* with the same call graph; an action picks the stimulus (one iteration   *)
(* of Raft.stateLoop, one step of a replication goroutine, one item of the *)
(* FSM goroutine) and assigns node' = [node EXCEPT ![n] = Handler(...)].   *)
(*                                                                         *)
(* Mapping of actions to critical sections of the code                     *)
(*   Timeout(n)          raft.go stateLoop `case <-r.timer.C`              *)
(*                       follower.onTimeout / candidate.onTimeout          *)
(*   RpcReq(m)           conn.go getConn identity handshake + server.go    *)
(*                       handleConn + rpc.go replyRPC -> onVoteRequest /   *)
(*                       onTimeoutNowRequest                               *)
(*   RpcResp(m)          candidate.go onVoteResult / transfer.go           *)
(*                       onTimeoutNowResult  (`case v := <-c.respCh`)      *)
(*   ReplSend(i,j)       replication.go runLoop/replicate: getConn,        *)
(*                       writeAppendEntriesReq (probe or pipeline)         *)
(*   AppendReq(i,j)      rpc.go replyRPC -> onAppendEntriesRequest         *)
(*   AppendResp(i,j)     replication.go onAppendEntriesResp (+ poll)       *)
(*   ReplFail(i,j)       replicate() returning an I/O error                *)
(*   ReplPoll(i,j)       replication.go checkLeaderUpdate/onLeaderUpdate   *)
(*   LdrUpdates(i)       leader.go checkReplUpdates                        *)
(*   Client(n)           stateLoop `case ne := <-r.newEntryCh`/storeEntry  *)
(*   Fsm(n)              fsm.go stateMachine.runLoop, one item             *)
(*   Disconnected(n,p)   stateLoop `case nid := <-r.disconnected`          *)
(*   Crash(n)/Restart(n) process kill / storage.go openStorage + Serve     *)
(* Role changes made by a handler are completed by Post(s), the mirror of  *)
(* stateLoop's `release()` of the old role and `init()` of the new one     *)
(* (leader.init appends the no-op and creates the replications).           *)
(***************************************************************************)
EXTENDS RaftProps

CONSTANTS Node,          \* node ids
          InitVoters,    \* voters of the bootstrap configuration
          InitNonvoters, \* non-voters of the bootstrap configuration
          MaxTerm, MaxLog, MaxCmds, MaxCrash, MaxInflight, MaxAppend, MaxElections,
          EagerLdr,      \* leader drains replication updates in the same step
          EagerPoll,     \* replication polls the leader update right before sending
          EagerFsm,      \* FSM queue is drained after every step
          Orphans,       \* requests of abandoned connections may still be delivered
          \* guard switches: TRUE = as the code is; FALSE = the guard removed (attack configs)
          G_LeaderKnown, G_OneVote, G_UpToDate, G_PersistVote, G_VoteQuorum,
          G_StaleTermVote, G_StepDownOnTerm,
          G_ConsistencyCheck, G_TruncateOnConflict, G_FollowerOwnTerm,
          G_LeaderOwnTerm, G_MajorityOfVoters, G_FlushBeforeAck, G_LeaderFlush,
          G_StaleTermAppend,
          Reduce,        \* state-space reduction: replies that cannot change their receiver are not sent
          SegSize, UpdBytes,   \* log segment size and update payload size in bytes (segment roll-over points)
          MaxSnaps,      \* number of TakeSnapshot requests (model bound)
          MaxRoundOrd,   \* cap for promotion round ordinals (model bound)
          RoundFastSet,  \* {TRUE} or BOOLEAN: may a promotion round be slower than PromoteThreshold
          MaxCfgReqs,    \* number of ChangeConfig requests (model bound)
          EdAddPromote, EdAddNonvoter, EdPromote, EdDemote, EdRemove, EdForceRemove,  \* node sets: the user edits a ChangeConfig request may combine
          G_ConfigCommittedFirst, G_OwnTermBeforeConfig, G_PromoteAfterRound, G_NonVoterNoElection, G_StepDownWhenDemoted,
          G_XferCaughtUp, G_XferBlocksEntries, G_XferSuccessOnHigherTerm, G_CommitMonotone, G_ReadAfterCommit,
          FixD4,         \* TRUE = snapshot labelled with the configuration in force at the snapshot index (repaired)
          FixD11,        \* TRUE = a stale log view reports entries in removed segments as not found (repaired)
          FixD3,         \* TRUE = canChangeConfig requires an own-term commit (repaired)
          FixD14,        \* TRUE = round.begin resets the end time of the previous round (repaired)
          FixD20,        \* TRUE = a snapshot is labelled with the configuration in force at the commit index (repaired)
          FixD22,        \* TRUE = a stale install-snapshot request does not replace newer state (repaired)
          FixD23,        \* TRUE = install-snapshot on a log that already agrees with the snapshot leaves the log alone (repaired)
          FixD19,        \* TRUE = a locally taken snapshot never replaces a newer installed one (repaired)
          FixD13,        \* TRUE = a follower flushes its log before every successful append reply (repaired)
          FixD5,         \* TRUE = onSnapshotTaken keeps leader.removeLTE >= log.PrevIndex (repaired)
          FixD2,         \* TRUE = leader.changeConfig caches numVoters of the NEW configuration (repaired)
          NetFaults,     \* TRUE: a dial / an RPC may fail although the peer is running (partitions)
          ClientOps,     \* kinds of client operations the model submits: subset of {"update", "read", "barrier", "dirty"}
          MaxXfers,      \* bound on leadership-transfer requests
          MaxXferTries,  \* bound on timeout-now requests per node incarnation
          XferTargets,   \* targets a transfer request may name (None = any)
          KeepHist,      \* record the sequence of events in `hist` (schedule export)
          FixD1          \* TRUE = onVoteRequest as repaired (requests from the known leader take the normal path)

VARIABLES node,   \* [Node -> node record]
          rpcs,   \* in-flight vote / timeout-now RPCs (records with phase 0 = request, 1 = response)
          orph,   \* requests of abandoned replication connections
          gh,     \* ghost ledgers (RaftProps)
          ctr,    \* [cmds, crashes]
          ev,     \* description of the last step (observation only)
          hist,   \* sequence of events so far (only if KeepHist; schedule export)
          ordc,   \* the order in which Go's `range l.repls` visits followers in the NEXT step (chosen one step ahead)
          rfc     \* whether promotion rounds evaluated in the NEXT step count as fast (Duration() <= PromoteThreshold)

vars == <<node, rpcs, orph, gh, ctr, ev, hist, ordc, rfc>>
view == <<node, rpcs, orph, gh, ctr, ordc, rfc>>

--------------------------------------------------------------------------
EmptyCfg == [index |-> 0, term |-> 0, nodes |-> << >>]
InitNodes == [i \in InitVoters \cup InitNonvoters |-> [voter |-> i \in InitVoters, action |-> "none"]]
InitCfg  == [index |-> 1, term |-> 1, nodes |-> InitNodes]
CfgEntry(cfg) == [t |-> cfg.term, y |-> "cfg", v |-> 0, c |-> cfg.nodes]
NoLu == [on |-> FALSE, vprev |-> 0, vlast |-> 0, commit |-> 0, cfg |-> FALSE, nil |-> FALSE]
\* the snapshot goroutine (fsm.go onTakeSnapshot / doTakeSnapshot): idle -> start -> asked -> got|err -> stored
NoSnapG == [pc |-> "idle", target |-> 0, cfg |-> EmptyCfg, idx |-> 0, term |-> 0, cmds |-> << >>, err |-> "", task |-> 0]
\* transfer.go: on = timer.active, resp = respCh # nil (timeout-now request in flight), nt = newTermTimer.active
NoXfer == [on |-> FALSE, term |-> 0, target |-> None, task |-> 0, resp |-> FALSE, nt |-> FALSE, seq |-> 0]
NoLdr == [on |-> FALSE, start |-> 0, numVoters |-> 0, selfVoter |-> FALSE, removeLTE |-> 0,
          neQ |-> << >>, replQ |-> << >>, repl |-> << >>, xfer |-> NoXfer]

InitNode(n) ==
    LET member == n \in InitVoters \cup InitNonvoters IN
    [id |-> n, up |-> TRUE, inc |-> 1, died |-> "",
     term |-> IF member THEN 1 ELSE 0, vote |-> None, dterm |-> IF member THEN 1 ELSE 0, dvote |-> None,
     state |-> "F", cur |-> "F", leader |-> None, commit |-> 0,
     logPrev |-> 0, log |-> IF member THEN <<CfgEntry(InitCfg)>> ELSE << >>, synced |-> IF member THEN 1 ELSE 0, bnds |-> {0},
     snapIdx |-> 0, snapTerm |-> 0, snapCfg |-> EmptyCfg, snapCmds |-> << >>,
     cfgC |-> EmptyCfg, cfgL |-> IF member THEN InitCfg ELSE EmptyCfg,
     aborted |-> FALSE, votesNeeded |-> 0, selfVote |-> FALSE, cndTransfer |-> FALSE,
     fsmIdx |-> 0, fsmTerm |-> 0, fsmCmds |-> << >>, fsmQ |-> << >>,
     ldr |-> NoLdr, outbox |-> {}, done |-> << >>, closed |-> FALSE, acts |-> {}, snapG |-> NoSnapG, xseq |-> 0]

--------------------------------------------------------------------------
(* storage.go / value.go                                                   *)

\* setTerm: persist (term, 0)
SetTerm(s, t) == IF s.term # t THEN [s EXCEPT !.term = t, !.vote = None, !.dterm = t, !.dvote = None] ELSE s
\* setVotedFor: persist (term, candidate) once
SetVotedFor(s, t, c) ==
    IF t # s.term \/ c # s.vote
    THEN IF G_PersistVote THEN [s EXCEPT !.term = t, !.vote = c, !.dterm = t, !.dvote = c]
                          ELSE [s EXCEPT !.term = t, !.vote = c]
    ELSE s
\* ---- log/ : the segmented log as far as raft depends on it. bnds = prevIndex of every segment file
\* (Min = logPrev). Sizes in bytes as encoded by messages.go entry.encode / config.go Config.encode;
\* a segment of SegSize bytes keeps an 8-byte slot per entry plus 24 bytes of header (log/segment.go available()).
EntrySize(e) == 21 + (IF e.y = "upd" THEN UpdBytes ELSE IF e.y = "cfg" THEN 4 + 25 * Cardinality(DOMAIN e.c) ELSE 0)
LastSegPrev(s) == SetMax(s.bnds)
RECURSIVE SumSizes(_, _, _)
SumSizes(s, from, to) == IF from > to THEN 0 ELSE EntrySize(EntryAt(s, from)) + SumSizes(s, from + 1, to)
Available(s) == LET p == LastSegPrev(s) IN (SegSize - 24) - 8 * (Last(s) - p) - SumSizes(s, p + 1, Last(s))
\* log.Append: roll over (after committing the full segment) when the entry does not fit
AppendEntry(s, e) ==
    IF Available(s) < EntrySize(e) /\ Last(s) > LastSegPrev(s)
    THEN [s EXCEPT !.log = Append(@, e), !.bnds = @ \cup {Last(s)}, !.synced = Last(s)]
    ELSE [s EXCEPT !.log = Append(@, e)]
\* removeGTE(i): the log package commits, drops whole segments from the back, lowers the header: the shorter log is durable
RemoveGTE(s, i) ==
    LET keep == {b \in s.bnds : b < i - 1}
    IN [s EXCEPT !.log = SubSeq(@, 1, i - 1 - s.logPrev), !.synced = i - 1,
                 !.bnds = IF keep = {} THEN {i - 1} ELSE keep]
\* log.CommitN(n): only the last segment can be dirty; it is flushed iff it starts below n
CommitLogN(s, n) == IF LastSegPrev(s) < n THEN [s EXCEPT !.synced = Last(s)] ELSE s
CommitLog(s) == CommitLogN(s, Last(s))
\* log.CanLTE / RemoveLTE: whole segments only, never the last one
CanLTE(s, i) == SetMax({b \in s.bnds : b <= i \/ b = s.logPrev})
CompactLog(s, lte) ==
    LET p == CanLTE(s, lte) IN
    [s EXCEPT !.log = SubSeq(@, p - s.logPrev + 1, Len(@)), !.logPrev = p, !.bnds = {b \in @ : b >= p}, !.synced = Max(@, Last(s))]

--------------------------------------------------------------------------
(* config.go: Raft.changeConfig / commitConfig / revertConfig / setCommitIndex *)

IsCommitted(s) == s.cfgL.index = s.cfgC.index
ForgetLeaderIfNotVoter(s, cfg) ==
    IF s.leader # None /\ ~IsVoter(cfg, s.leader) THEN [s EXCEPT !.leader = None] ELSE s
\* (tracer.configChanged on a node in state Leader is recorded in `acts`: the instant a leader introduces a configuration)
ChangeConfig(s, cfg) ==
    [ForgetLeaderIfNotVoter(s, cfg) EXCEPT !.cfgC = s.cfgL, !.cfgL = cfg,
        !.acts = IF s.state = "L" /\ s.ldr.on
                 THEN @ \cup {[kind |-> "cfgChanged", n |-> s.id, index |-> cfg.index, prev |-> s.cfgL.index, commit |-> s.commit, start |-> s.ldr.start]}
                 ELSE @]
CommitConfig(s) == [ForgetLeaderIfNotVoter(s, s.cfgL) EXCEPT !.cfgC = s.cfgL]
RevertConfig(s) == [s EXCEPT !.cfgL = s.cfgC]

\* Raft.setCommitIndex
SetCommitIndexR(s, idx) ==
    LET s1 == [s EXCEPT !.commit = idx] IN
    IF ~IsCommitted(s1) /\ s1.cfgL.index <= idx
    THEN LET s2 == CommitConfig(s1)
             s3 == IF s2.state = "L" /\ ~IsVoter(s2.cfgL, s2.id) /\ G_StepDownWhenDemoted
                   THEN [s2 EXCEPT !.state = "F", !.leader = None] ELSE s2
             \* ShutdownOnRemove: the node closes itself once its removal is committed
             s4 == IF s3.id \notin DOMAIN s3.cfgL.nodes
                   THEN [s3 EXCEPT !.closed = TRUE,
                                   !.acts = @ \cup {[kind |-> "stopped", n |-> s3.id, commit |-> s3.commit, cfgIndex |-> s3.cfgL.index, member |-> FALSE]}]
                   ELSE s3
         IN s4
    ELSE s1

\* follower-side Raft.applyCommitted: hand the FSM a view ending at commitIndex
ApplyCommittedF(s) == [s EXCEPT !.fsmQ = Append(@, [kind |-> "apply", upto |-> s.commit, prev |-> s.logPrev, items |-> << >>])]

--------------------------------------------------------------------------
(* follower.go / candidate.go                                              *)

CanStartElection(s) == s.cfgL.index > 0 /\ (IsVoter(s.cfgL, s.id) \/ (~G_NonVoterNoElection /\ s.id \in DOMAIN s.cfgL.nodes))
ResetTimer(s) == IF CanStartElection(s) THEN [s EXCEPT !.aborted = FALSE] ELSE s

VoteReqMsg(s, d) == [kind |-> "vote", from |-> s.id, to |-> d, term |-> s.term, transfer |-> s.cndTransfer,
                     lastIdx |-> Last(s), lastTerm |-> LastTerm(s), phase |-> 0, result |-> "", respTerm |-> 0]

\* candidate.startElection
StartElection(s) ==
    LET s1 == SetVotedFor(s, s.term + 1, s.id)
        s2 == [s1 EXCEPT !.votesNeeded = Quorum(s.cfgL), !.selfVote = TRUE]
    IN [s2 EXCEPT !.outbox = @ \cup {VoteReqMsg(s2, d) : d \in Voters(s.cfgL.nodes) \ {s.id}}]

--------------------------------------------------------------------------
(* leader.go, changeconfig.go, config.go (leader side)                     *)
(* The Go call graph is mutually recursive (storeEntry -> changeConfig ->  *)
(* checkConfigActions -> doChangeConfig -> storeEntry; setCommitIndex ->   *)
(* checkConfigActions; onMajorityCommit -> setCommitIndex) and so are the  *)
(* operators. s.ord is the order in which `range l.repls` visits the       *)
(* followers in this step (Go map order: chosen by the action).            *)

Perms(S) == {q \in [1..Cardinality(S) -> S] : \A a \in S : \E k \in 1..Cardinality(S) : q[k] = a}
AllOrds == Perms(Node)
CanonOrd == CHOOSE q \in AllOrds : TRUE
HasActions(nodes) == \E i \in DOMAIN nodes : nodes[i].action # "none"

\* changeconfig.go round: begin() bumps the ordinal and the start time but does NOT clear End, so a round that
\* finished once stays "finished" for ever and its Duration() (End - Start) is negative afterwards (stale = TRUE):
\* only the FIRST round of a promotion is ever measured against PromoteThreshold.
NoRound == [on |-> FALSE, ord |-> 0, last |-> 0, done |-> FALSE, stale |-> FALSE]
\* (FixD14: round.begin clears End, so that every round has to be completed and is timed)
BeginRound(r, last) == [on |-> TRUE, ord |-> Min(r.ord + 1, MaxRoundOrd), last |-> last,
                        done |-> IF FixD14 THEN FALSE ELSE r.done, stale |-> IF FixD14 THEN FALSE ELSE r.done]

NewRepl(s, j) ==
    [next |-> Last(s) + 1, rmatch |-> 0, match |-> 0, noContact |-> FALSE,
     vprev |-> s.ldr.removeLTE, vlast |-> Last(s), rcommit |-> s.commit,
     voter |-> IsVoter(s.cfgL, j), mode |-> "probe", up |-> FALSE, failures |-> 0,
     reqs |-> << >>, resps |-> << >>, canWrite |-> FALSE, lu |-> NoLu, ended |-> FALSE, term |-> s.term,
     round |-> NoRound, pdead |-> FALSE, srem |-> s.ldr.removeLTE, vnil |-> s.ldr.removeLTE < s.logPrev, snapWait |-> FALSE]

\* leader.notifyFlr: newest update wins (1-slot channel)
NotifyFlr(s, inclCfg) ==
    [s EXCEPT !.ldr.repl = [j \in DOMAIN s.ldr.repl |->
        \* log.ViewAt(removeLTE, last) returns nil when removeLTE < PrevIndex (the update then carries a nil view)
        [s.ldr.repl[j] EXCEPT !.lu = [on |-> TRUE, vprev |-> s.ldr.removeLTE, vlast |-> Last(s), commit |-> s.commit,
                                      cfg |-> inclCfg, nil |-> s.ldr.removeLTE < s.logPrev]]]]

\* leader.majorityMatchIndex (numVoters and selfVoter are the leader's CACHED values)
MajorityMatchIndex(s) ==
    IF s.ldr.numVoters = 1 /\ s.ldr.selfVoter THEN Last(s)
    ELSE LET vs == IF G_MajorityOfVoters THEN Voters(s.cfgL.nodes) ELSE DOMAIN s.cfgL.nodes
             m  == [j \in vs |-> IF j = s.id THEN Last(s) ELSE IF j \in DOMAIN s.ldr.repl THEN s.ldr.repl[j].match ELSE 0]
             q  == Cardinality(vs) \div 2 + 1
             ok == {k \in 0..Last(s) : Cardinality({j \in vs : m[j] >= k}) >= q}
         IN IF vs = {} THEN 0 ELSE SetMax(ok)

\* leader.applyCommitted: release queue items <= commit (and non-log items at commit+1)
ApplyCommittedL(s) ==
    LET q == s.ldr.neQ
        RECURSIVE Cnt(_)
        Cnt(k) == IF k > Len(q) THEN k - 1
                  ELSE IF q[k].i <= s.commit \/ (q[k].i = s.commit + 1 /\ ~q[k].log) THEN Cnt(k + 1) ELSE k - 1
        n == Cnt(1)
    IN [s EXCEPT !.ldr.neQ = SubSeq(q, n + 1, Len(q)),
                 !.fsmQ = Append(@, [kind |-> "apply", upto |-> s.commit, prev |-> s.logPrev, items |-> SubSeq(q, 1, n)])]

IsStableCfg(cfg) == \A i \in DOMAIN cfg.nodes : cfg.nodes[i].action = "none"
\* (FixD3: leader-derived membership actions also wait for an own-term commit, as user requests always did)
CanChangeConfig(s) == (~G_ConfigCommittedFirst \/ IsCommitted(s)) /\ ~s.ldr.xfer.on
                        /\ ((FixD3 /\ G_OwnTermBeforeConfig) => s.commit >= s.ldr.start)

\* config.go Node.nextAction
NextAction(n) ==
    IF n.action = "forceRemove" THEN "forceRemove"
    ELSE IF n.voter THEN (IF n.action \in {"demote", "remove"} THEN "demote" ELSE "none")
    ELSE IF n.action \in {"promote", "remove"} THEN n.action ELSE "none"

Without(nodes, j) == [i \in (DOMAIN nodes) \ {j} |-> nodes[i]]

\* changeconfig.go beginFinishedRounds
BeginFinishedRounds(s) ==
    [s EXCEPT !.ldr.repl = [j \in DOMAIN s.ldr.repl |->
        LET r == s.ldr.repl[j].round IN
        IF r.on /\ r.done THEN [s.ldr.repl[j] EXCEPT !.round = BeginRound(r, Last(s))]
        ELSE s.ldr.repl[j]]]

RECURSIVE StoreEntryL(_, _), LeaderChangeConfig(_, _), CheckConfigActions(_, _, _), CheckFollowers(_, _, _, _),
          CheckConfigAction(_, _, _, _), SetCommitIndexL(_, _), OnMajorityCommit(_)

\* leader.storeEntry for one log entry e = [y, v, c, task]
StoreEntryL(s, e) ==
    \* storeEntry rejects everything while a transfer is in progress or once the leader is no voter any more
    \* (also the configuration entries its own checkConfigActions derives)
    IF (G_XferBlocksEntries /\ s.ldr.xfer.on) \/ ~s.ldr.selfVoter
    THEN IF e.task # 0 THEN [s EXCEPT !.done = Append(@, [task |-> e.task, res |-> "inProgress", pos |-> 0])] ELSE s
    ELSE
    LET s1 == AppendEntry(s, [t |-> s.term, y |-> e.y, v |-> e.v, c |-> e.c])
        s2 == [s1 EXCEPT !.ldr.neQ = Append(@, [i |-> Last(s1), y |-> e.y, log |-> TRUE, task |-> e.task, v |-> e.v, t |-> s.term])]
        s3 == IF e.y = "cfg" THEN LeaderChangeConfig(s2, [index |-> Last(s1), term |-> s.term, nodes |-> e.c]) ELSE s2
        s4 == NotifyFlr(BeginFinishedRounds(s3), e.y = "cfg")
    IN IF s4.ldr.numVoters = 1 /\ s4.ldr.selfVoter THEN OnMajorityCommit(s4) ELSE s4

\* storeEntry of a read / barrier / dirty read on the leader: queued at index last+1, never appended to the log;
\* answered by the FSM once everything before it is committed (at once if nothing is outstanding)
StoreNonLog(s, y, task) ==
    IF (G_XferBlocksEntries /\ s.ldr.xfer.on) \/ ~s.ldr.selfVoter
    THEN [s EXCEPT !.done = Append(@, [task |-> task, res |-> "inProgress", pos |-> 0])]
    ELSE IF ~G_ReadAfterCommit /\ y = "read"
    THEN [s EXCEPT !.fsmQ = Append(@, [kind |-> "dirtyRead", task |-> task])]   \* (guard off: answered without waiting for what is outstanding)
    ELSE LET s1 == [s EXCEPT !.ldr.neQ = Append(@, [i |-> Last(s) + 1, y |-> y, log |-> FALSE, task |-> task, v |-> 0, t |-> s.term])]
         IN IF ~s1.ldr.neQ[1].log THEN ApplyCommittedL(s1) ELSE s1

DoChangeConfig(s, nodes, task) == StoreEntryL(s, [y |-> "cfg", v |-> 0, c |-> nodes, task |-> task])

\* config.go leader.changeConfig -- NOTE numVoters is computed from the configuration being REPLACED
LeaderChangeConfig(s, cfg) ==
    LET nv == IF FixD2 THEN NumVoters(cfg) ELSE NumVoters(s.cfgL)
        s1 == [s EXCEPT !.ldr.selfVoter = IsVoter(cfg, s.id), !.ldr.numVoters = nv]
        s2 == ChangeConfig(s1, cfg)
        keep == (DOMAIN s2.ldr.repl) \cap (DOMAIN cfg.nodes)
        add  == ((DOMAIN cfg.nodes) \ {s.id}) \ DOMAIN s2.ldr.repl
        s3 == [s2 EXCEPT !.ldr.repl = [j \in keep \cup add |-> IF j \in keep THEN s2.ldr.repl[j] ELSE NewRepl(s2, j)]]
    IN CheckConfigActions(s3, s3.cfgL.nodes, 0)

\* changeconfig.go checkConfigActions
CheckConfigActions(s, nodes, task) ==
    LET selfIn == s.id \in DOMAIN nodes
        act == IF selfIn THEN nodes[s.id].action ELSE "none"
    IN IF CanChangeConfig(s) /\ act # "none"
       THEN IF act = "demote"
            THEN LET nn == [nodes EXCEPT ![s.id] = [voter |-> FALSE, action |-> "none"]]
                 IN CheckFollowers(DoChangeConfig(s, nn, task), nn, task, 1)
            ELSE IF act \in {"remove", "forceRemove"}
            THEN LET nn == Without(nodes, s.id)
                 IN CheckFollowers(DoChangeConfig(s, nn, task), nn, task, 1)
            ELSE [s EXCEPT !.died = "raft"]
       ELSE CheckFollowers(s, nodes, task, 1)

\* `for _, repl := range l.repls { l.checkConfigAction(t, config, &repl.status) }` in the order s.ord
CheckFollowers(s, nodes, task, k) ==
    IF k > Len(ordc) THEN s
    ELSE LET j == ordc[k] IN
         IF j \in DOMAIN s.ldr.repl THEN CheckFollowers(CheckConfigAction(s, nodes, j, task), nodes, task, k + 1)
         ELSE CheckFollowers(s, nodes, task, k + 1)

\* changeconfig.go checkConfigAction
CheckConfigAction(s, nodes, j, task) ==
    IF j \notin DOMAIN nodes THEN s
    ELSE
    LET n == nodes[j]
        action == NextAction(n)
        Note(sx) == [sx EXCEPT !.acts = @ \cup {[kind |-> "action", n |-> sx.id, id |-> j, action |-> action,
                                                    match |-> sx.ldr.repl[j].match, rdone |-> sx.ldr.repl[j].round.done,
                                                    rlast |-> sx.ldr.repl[j].round.last, last |-> Last(sx)]}]
        Perform(sy) ==
            LET sx == Note(sy) IN
            IF ~CanChangeConfig(sy) THEN sy
            ELSE IF action = "promote" THEN DoChangeConfig(sx, [nodes EXCEPT ![j] = [voter |-> TRUE, action |-> "none"]], task)
            ELSE IF action = "remove"
                 THEN (IF sx.ldr.repl[j].match >= sx.cfgL.index THEN DoChangeConfig(sx, Without(nodes, j), task) ELSE sy)
            ELSE IF action = "forceRemove" THEN DoChangeConfig(sx, Without(nodes, j), task)
            ELSE DoChangeConfig(sx, [nodes EXCEPT ![j] = [voter |-> FALSE, action |-> IF n.action = "demote" THEN "none" ELSE n.action]], task)
    IN IF action = "none" THEN s
       ELSE LET r0 == s.ldr.repl[j].round
                s1 == IF action # "promote" THEN [s EXCEPT !.ldr.repl[j].round = NoRound]
                      ELSE IF ~r0.on THEN [s EXCEPT !.ldr.repl[j].round = BeginRound(NoRound, Last(s))]
                      ELSE s
                r1 == s1.ldr.repl[j].round
            IN IF r1.on /\ G_PromoteAfterRound
               THEN LET r2 == IF ~r1.done /\ s1.ldr.repl[j].match >= r1.last THEN [r1 EXCEPT !.done = TRUE, !.stale = FALSE] ELSE r1
                        s2 == [s1 EXCEPT !.ldr.repl[j].round = r2]
                    IN IF ~r2.done THEN s2
                       ELSE IF Last(s2) > s2.ldr.repl[j].match /\ ~rfc /\ ~r2.stale
                       THEN [s2 EXCEPT !.ldr.repl[j].round = BeginRound(r2, Last(s2))]
                       ELSE Perform(s2)
               ELSE Perform(s1)

\* config.go leader.setCommitIndex: flush, advance, config bookkeeping
\* (CommitN flushes the whole last segment: everything appended so far becomes durable)
SetCommitIndexL(s, idx) ==
    LET s0 == IF G_LeaderFlush THEN CommitLogN(s, idx) ELSE s
        s1 == [s0 EXCEPT !.acts = @ \cup {[kind |-> "commit", n |-> s.id, index |-> idx, voters |-> Voters(s.cfgL.nodes)]}]
        commitReady == s1.commit < s1.ldr.start /\ idx >= s1.ldr.start
        committedNow == ~IsCommitted(s1) /\ s1.cfgL.index <= idx
        s2 == SetCommitIndexR(s1, idx)
        \* FixD3: actions postponed until the first own-term commit are evaluated now
        s3 == IF FixD3 /\ commitReady /\ ~committedNow /\ IsCommitted(s2) /\ ~IsStableCfg(s2.cfgL)
              THEN CheckConfigActions(s2, s2.cfgL.nodes, 0) ELSE s2
    IN IF committedNow /\ ~IsStableCfg(s3.cfgL) THEN CheckConfigActions(s3, s3.cfgL.nodes, 0) ELSE s3

\* leader.onMajorityCommit
OnMajorityCommit(s) ==
    LET m == MajorityMatchIndex(s) IN
    IF m > s.commit /\ (~G_LeaderOwnTerm \/ m >= s.ldr.start)
    THEN NotifyFlr(ApplyCommittedL(SetCommitIndexL(s, m)), FALSE)
    ELSE s

StoreLogEntry(s, y, v, task) == StoreEntryL(s, [y |-> y, v |-> v, c |-> << >>, task |-> task])

\* leader.init
LeaderInit(s) ==
    LET l0 == [on |-> TRUE, start |-> Last(s) + 1, numVoters |-> NumVoters(s.cfgL),
               selfVoter |-> IsVoter(s.cfgL, s.id), removeLTE |-> s.logPrev,
               neQ |-> << >>, replQ |-> << >>, repl |-> << >>, xfer |-> NoXfer]
        s1 == [s EXCEPT !.ldr = l0]
        s2 == [s1 EXCEPT !.ldr.repl = [j \in (DOMAIN s.cfgL.nodes) \ {s.id} |-> NewRepl(s1, j)]]
        s3 == CheckConfigActions(s2, s2.cfgL.nodes, 0)
    IN StoreLogEntry(s3, "nop", 0, 0)

\* leader.release: pending entries fail with NotLeaderError{Lost: true}
LeaderRelease(s) ==
    LET lost == [k \in 1..Len(s.ldr.neQ) |-> [task |-> s.ldr.neQ[k].task, res |-> IF s.closed THEN "serverClosed" ELSE "notLeaderLost", pos |-> 0]]
        x == s.ldr.xfer
        \* a transfer in progress is answered first: success iff the term moved on
        xr == IF x.on THEN <<[task |-> x.task, pos |-> 0,
                              res |-> IF s.term > x.term \/ ~G_XferSuccessOnHigherTerm THEN "ok" ELSE IF s.closed THEN "serverClosed" ELSE "quorumUnreachable"]>>
              ELSE << >>
    IN [s EXCEPT !.leader = IF s.leader = s.id THEN None ELSE @,
                 !.done = @ \o xr \o SelectSeq(lost, LAMBDA d : d.task # 0),
                 !.ldr = NoLdr]

\* ---- transfer.go ----
TargetReady(s, j) == j \in DOMAIN s.ldr.repl /\ IsVoter(s.cfgL, j) /\ ~s.ldr.repl[j].noContact /\ (~G_XferCaughtUp \/ s.ldr.repl[j].match = Last(s))
RECURSIVE FirstReady(_, _)
FirstReady(s, k) == IF k > Len(ordc) THEN None
                    ELSE IF ordc[k] # s.id /\ TargetReady(s, ordc[k]) THEN ordc[k] ELSE FirstReady(s, k + 1)
\* leader.tryTransfer: choose a target that is reachable and holds the whole log; send timeout-now
TryTransfer(s) ==
    LET x   == s.ldr.xfer
        tgt == IF x.target # None THEN (IF TargetReady(s, x.target) THEN x.target ELSE None) ELSE FirstReady(s, 1)
    IN IF tgt = None \/ s.xseq >= MaxXferTries THEN s
       ELSE [s EXCEPT !.xseq = @ + 1, !.ldr.xfer.resp = TRUE, !.ldr.xfer.seq = s.xseq + 1,
                      !.outbox = @ \cup {[kind |-> "timeoutNow", from |-> s.id, to |-> tgt, term |-> s.term, transfer |-> FALSE,
                                           lastIdx |-> 0, lastTerm |-> 0, phase |-> 0, result |-> "", respTerm |-> 0, xseq |-> s.xseq + 1]},
                      !.acts = @ \cup {[kind |-> "xferTarget", n |-> s.id, target |-> tgt, voter |-> IsVoter(s.cfgL, tgt),
                                        match |-> s.ldr.repl[tgt].match, last |-> Last(s)]}]
\* leader.replyTransfer
ReplyTransfer(s, res) ==
    LET x == s.ldr.xfer
        s1 == [s EXCEPT !.done = Append(@, [task |-> x.task, res |-> res, pos |-> 0]), !.ldr.xfer = NoXfer]
    IN CheckConfigActions(s1, s1.cfgL.nodes, 0)
\* leader.onTransfer
OnTransfer(s, target, task) ==
    LET reply(res) == [s EXCEPT !.done = Append(@, [task |-> task, res |-> res, pos |-> 0])]
    IN IF s.ldr.xfer.on THEN reply("inProgress")
       ELSE IF NumVoters(s.cfgL) = 1 THEN reply("noVoter")
       ELSE IF target # None /\ target = s.id THEN reply("transferSelf")
       ELSE IF target # None /\ target \in DOMAIN s.cfgL.nodes /\ ~IsVoter(s.cfgL, target) THEN reply("targetNonvoter")
       ELSE IF target # None /\ target \notin DOMAIN s.cfgL.nodes THEN reply("invalidTarget")
       ELSE TryTransfer([s EXCEPT !.ldr.xfer = [on |-> TRUE, term |-> s.term, target |-> target, task |-> task,
                                                resp |-> FALSE, nt |-> FALSE, seq |-> 0]])
\* leader.onTimeoutNowResult (result = "err": the RPC itself failed)
OnTimeoutNowResult(s, from, result) ==
    LET s0 == [s EXCEPT !.ldr.xfer.resp = FALSE] IN
    IF result = "err"
    THEN IF from \notin DOMAIN s0.ldr.repl THEN [s0 EXCEPT !.died = "raft"]
         ELSE LET s1 == IF ~s0.ldr.repl[from].noContact THEN [s0 EXCEPT !.ldr.repl[from].noContact = TRUE] ELSE s0
              IN IF s1.ldr.xfer.target = None THEN TryTransfer(s1) ELSE s1
    ELSE IF result # "success"
    THEN IF s0.ldr.xfer.target = None THEN ReplyTransfer(s0, "targetRejected") ELSE TryTransfer(s0)
    ELSE [s0 EXCEPT !.ldr.xfer.nt = TRUE]

\* leader.checkQuorum(0): step down when a majority of voters is not reachable
CheckQuorum(s) ==
    LET vs == Voters(s.cfgL.nodes)
        reach == {j \in vs : j = s.id \/ (j \in DOMAIN s.ldr.repl /\ ~s.ldr.repl[j].noContact)}
    IN IF Cardinality(reach) >= Cardinality(vs) \div 2 + 1 THEN s
       ELSE [s EXCEPT !.state = "F", !.leader = None]

\* leader.checkReplUpdates: drain the queue
\* leader.checkLogCompact: compact to removeLTE once every replication has moved its view past it
CheckLogCompact(s) ==
    IF \A j \in DOMAIN s.ldr.repl : s.ldr.repl[j].srem >= s.ldr.removeLTE THEN CompactLog(s, s.ldr.removeLTE) ELSE s
RECURSIVE DrainReplQ(_, _, _, _)
DrainReplQ(s, mU, nU, rU) ==
    IF s.ldr.replQ = << >> THEN
        LET s1 == IF mU THEN OnMajorityCommit(s) ELSE s
            s2 == IF nU THEN CheckQuorum(s1) ELSE s1
            s3 == IF rU /\ s2.ldr.on /\ s2.ldr.removeLTE > s2.logPrev THEN CheckLogCompact(s2) ELSE s2
            x  == s3.ldr.xfer
        IN IF (mU \/ nU) /\ s3.died = "" /\ s3.ldr.on /\ x.on /\ ~x.resp /\ ~x.nt THEN TryTransfer(s3) ELSE s3
    ELSE LET u == Head(s.ldr.replQ)
             s0 == [s EXCEPT !.ldr.replQ = Tail(@)]
         IN IF u.j \notin DOMAIN s0.ldr.repl THEN DrainReplQ(s0, mU, nU, rU)
            ELSE IF u.kind = "match"
                 THEN LET s1 == [s0 EXCEPT !.ldr.repl[u.j].match = u.val]
                          nd == IF u.j \in DOMAIN s1.cfgL.nodes THEN s1.cfgL.nodes[u.j] ELSE [voter |-> FALSE, action |-> "none"]
                          \* status.node is the node as of the last leader.changeConfig = cfgL
                          s2 == IF ~nd.voter /\ nd.action # "none" THEN CheckConfigAction(s1, s1.cfgL.nodes, u.j, 0) ELSE s1
                      IN DrainReplQ(s2, TRUE, nU, rU)
            ELSE IF u.kind = "noContact" THEN DrainReplQ([s0 EXCEPT !.ldr.repl[u.j].noContact = u.val], mU, TRUE, rU)
            ELSE IF u.kind = "removeLTE" THEN DrainReplQ([s0 EXCEPT !.ldr.repl[u.j].srem = u.val], mU, nU, TRUE)
            ELSE IF u.kind = "died" THEN [s0 EXCEPT !.died = u.val]
            ELSE IF u.kind = "newTerm" THEN SetTerm([s0 EXCEPT !.state = "F", !.leader = None], u.val)
            ELSE DrainReplQ(s0, mU, nU, rU)
CheckReplUpdates(s) == IF s.ldr.on /\ s.ldr.replQ # << >> THEN DrainReplQ(s, FALSE, FALSE, FALSE) ELSE s

\* changeconfig.go onChangeConfig (user request: the complete new node map)
ValidNode(n) == ~(n.action = "promote" /\ n.voter) /\ ~(n.action = "demote" /\ ~n.voter)
OnChangeConfig(s, nodes, task) ==
    LET reply(res) == [s EXCEPT !.done = Append(@, [task |-> task, res |-> res, pos |-> 0])]
        cur == s.cfgL.nodes
    IN IF ~IsCommitted(s) THEN reply("inProgress")
       ELSE IF s.commit < s.ldr.start /\ G_OwnTermBeforeConfig THEN reply("notCommitReady")
       ELSE IF \E i \in DOMAIN nodes : ~ValidNode(nodes[i]) THEN reply("invalid")
       ELSE IF Voters(nodes) = {} THEN reply("invalid")
       ELSE IF \E i \in DOMAIN cur : i \notin DOMAIN nodes \/ nodes[i].voter # cur[i].voter THEN reply("invalid")
       ELSE IF \E i \in (DOMAIN nodes) \ DOMAIN cur : nodes[i].voter THEN reply("invalid")
       ELSE IF ~\E i \in DOMAIN nodes : nodes[i].voter /\ nodes[i].action = "none" THEN reply("invalid")
       ELSE LET s1 == CheckConfigActions(s, nodes, task)
                \* (D15) an action performed and committed at once (single voter) leaves the configuration committed again:
                \* the request is appended a second time with the same task, which has been answered already
                \* (task.reply is first-wins)
                t2 == IF s1.cfgL.index # s.cfgL.index THEN 0 ELSE task
            IN IF IsCommitted(s1) THEN DoChangeConfig(s1, nodes, t2) ELSE s1

--------------------------------------------------------------------------
(* stateLoop mirror: complete role changes                                 *)

Release(s, role) == IF role = "L" THEN LeaderRelease(s)
                    ELSE IF role = "C" THEN [s EXCEPT !.selfVote = FALSE, !.cndTransfer = FALSE, !.votesNeeded = 0]
                    ELSE s
Init_(s, role) == IF role = "L" THEN LeaderInit(s)
                  ELSE IF role = "C" THEN StartElection(s)
                  ELSE [s EXCEPT !.aborted = FALSE]
\* a node that closed itself (removed): stateLoop returns, the current role is released; nothing is flushed
\* (Serve closes the FSM channel only after the state loop returned: the FSM goroutine first finishes its queue,
\*  answering the tasks in it)
\* (Raft.release first waits for a snapshot in progress and handles its completion)
RECURSIVE FsmDrain(_)
RECURSIVE FinishSnapshot(_)
Stopped(s0) ==
    LET s == FsmDrain(FinishSnapshot(s0)) IN
    [s EXCEPT !.up = FALSE, !.state = "D", !.cur = "D", !.leader = None, !.commit = 0,
              !.log = SubSeq(@, 1, s.synced - s.logPrev), !.term = s.dterm, !.vote = s.dvote,
              !.aborted = FALSE, !.votesNeeded = 0, !.selfVote = FALSE, !.cndTransfer = FALSE,
              !.fsmIdx = 0, !.fsmTerm = 0, !.fsmCmds = << >>, !.fsmQ = << >>, !.ldr = NoLdr, !.closed = FALSE, !.snapG = NoSnapG]
RECURSIVE Post(_)
Post(s) == IF s.closed THEN Stopped(Release(s, s.cur))
           ELSE IF s.state = s.cur THEN s
           ELSE Post(Init_([Release(s, s.cur) EXCEPT !.cur = s.state], s.state))

--------------------------------------------------------------------------
(* fsm.go: one item of the FSM goroutine                                   *)

RECURSIVE ApplyLog(_, _)
ApplyLog(s, upto) ==
    IF s.fsmIdx >= upto THEN s
    ELSE LET i == s.fsmIdx + 1 IN
         IF ~HasIdx(s, i) THEN [s EXCEPT !.died = "fsm"]
         ELSE LET e == EntryAt(s, i)
              IN ApplyLog([s EXCEPT !.fsmIdx = i, !.fsmTerm = e.t,
                                    !.fsmCmds = IF e.y = "upd" THEN Append(@, e.v) ELSE @], upto)
RECURSIVE ApplyItems(_, _)
ApplyItems(s, items) ==
    IF items = << >> THEN s
    ELSE LET it == Head(items) IN
         IF it.log /\ it.i # s.fsmIdx + 1 THEN [s EXCEPT !.died = "fsm"]
         ELSE LET s1 == IF it.y = "upd" THEN [s EXCEPT !.fsmCmds = Append(@, it.v)] ELSE s
                  s2 == IF it.log THEN [s1 EXCEPT !.fsmIdx = it.i, !.fsmTerm = it.t] ELSE s1
                  s3 == IF it.task # 0
                        THEN [s2 EXCEPT !.done = Append(@, IF it.y \in {"read", "dirty"}
                                                           THEN [task |-> it.task, res |-> "ok", pos |-> 0, rd |-> s1.fsmCmds]
                                                           ELSE [task |-> it.task, res |-> "ok", pos |-> Len(s1.fsmCmds)])]
                        ELSE s2
              IN ApplyItems(s3, Tail(items))
FsmItem(s) ==
    LET it == Head(s.fsmQ)
        s0 == [s EXCEPT !.fsmQ = Tail(@)]
    IN IF it.kind = "apply"
       THEN LET front == IF it.items = << >> THEN it.upto + 1 ELSE it.items[1].i
                s1 == ApplyLog(s0, front - 1)
            IN IF s1.died # "" THEN s1
               ELSE LET s2 == ApplyItems(s1, it.items)
                    IN IF s2.died = "" /\ s2.fsmIdx # it.upto THEN [s2 EXCEPT !.died = "fsm"] ELSE s2
       ELSE IF it.kind = "snapReq"
       THEN \* fsm.go onSnapReq: answers at the index the FSM has applied NOW
            IF s0.fsmIdx = s0.snapIdx THEN [s0 EXCEPT !.snapG.pc = "err", !.snapG.err = "noUpdates"]
            ELSE IF s0.fsmIdx < it.target THEN [s0 EXCEPT !.snapG.pc = "err", !.snapG.err = "snapshotThreshold"]
            ELSE [s0 EXCEPT !.snapG.pc = "got", !.snapG.idx = s0.fsmIdx, !.snapG.term = s0.fsmTerm, !.snapG.cmds = s0.fsmCmds]
       ELSE IF it.kind = "dirtyRead"
       THEN [s0 EXCEPT !.done = Append(@, [task |-> it.task, res |-> "ok", pos |-> 0, rd |-> s0.fsmCmds])]
       ELSE IF it.kind = "restore"
       THEN [s0 EXCEPT !.fsmIdx = s0.snapIdx, !.fsmTerm = s0.snapTerm, !.fsmCmds = s0.snapCmds]
       ELSE s0
FsmDrain(s) == IF s.up /\ s.died = "" /\ s.fsmQ # << >> THEN FsmDrain(FsmItem(s)) ELSE s

--------------------------------------------------------------------------
(* rpc.go                                                                  *)

\* onVoteRequest exactly as written (FixD1 selects the repaired leader-known branch)
OnVoteRequest(s, m) ==
    IF G_LeaderKnown /\ ~m.transfer /\ s.leader # None /\ ~(FixD1 /\ m.from = s.leader)
    THEN [s |-> s, result |-> IF m.from = s.leader THEN "success" ELSE "leaderKnown"]
    ELSE IF G_StaleTermVote /\ m.term < s.term THEN [s |-> s, result |-> "staleTerm"]
    ELSE LET higher == m.term > s.term
             t  == IF higher THEN m.term ELSE s.term
             vf == IF higher THEN None ELSE s.vote
             s1 == IF higher /\ G_StepDownOnTerm THEN [s EXCEPT !.state = "F"] ELSE s
         IN IF G_OneVote /\ vf # None
            THEN [s |-> SetVotedFor(s1, t, vf), result |-> IF vf = m.from THEN "success" ELSE "alreadyVoted"]
            ELSE IF G_UpToDate /\ (LastTerm(s) > m.lastTerm \/ (LastTerm(s) = m.lastTerm /\ Last(s) > m.lastIdx))
            THEN [s |-> SetVotedFor(s1, t, vf), result |-> "logNotUptodate"]
            ELSE [s |-> SetVotedFor(s1, t, m.from), result |-> "success"]

OnTimeoutNowRequest(s) ==
    IF ~IsVoter(s.cfgL, s.id) THEN [s |-> s, result |-> "nonVoter"]
    ELSE [s |-> [s EXCEPT !.state = "C", !.leader = None, !.cndTransfer = TRUE], result |-> "success"]

CanCommit(s, req, idx, tm) == req.commit >= idx /\ (~G_FollowerOwnTerm \/ tm = req.term)
                                /\ (IF G_CommitMonotone THEN idx > s.commit ELSE req.commit > s.commit)

\* the per-entry loop of onAppendEntriesRequest
RECURSIVE Consume(_, _, _, _, _)
Consume(s, ents, idx, tm, appended) ==
    IF ents = << >> THEN [s |-> s, idx |-> idx, tm |-> tm, appended |-> appended]
    ELSE LET ne == Head(ents)
             i  == idx + 1
         IN IF i <= s.snapIdx THEN Consume(s, Tail(ents), i, ne.t, appended)
            ELSE IF i <= Last(s) /\ EntryAt(s, i).t = ne.t THEN Consume(s, Tail(ents), i, ne.t, appended)
            ELSE LET s1 == IF i <= Last(s)
                           THEN IF G_TruncateOnConflict
                                THEN LET sr == RemoveGTE(s, i) IN IF i <= s.cfgL.index THEN RevertConfig(sr) ELSE sr
                                ELSE [s EXCEPT !.log = SubSeq(@, 1, i - 1 - s.logPrev)]
                           ELSE s
                     s2 == AppendEntry(s1, ne)
                     s3 == IF ne.y = "cfg" THEN ChangeConfig(s2, [index |-> i, term |-> ne.t, nodes |-> ne.c]) ELSE s2
                 IN Consume(s3, Tail(ents), i, ne.t, TRUE)

OnAppendEntriesRequest(s, req) ==
    IF G_StaleTermAppend /\ req.term < s.term THEN [s |-> s, result |-> "staleTerm"]
    ELSE
    LET s1 == [SetTerm(s, Max(req.term, s.term)) EXCEPT !.state = "F", !.leader = req.src]
        chk == req.prev > s1.snapIdx /\ G_ConsistencyCheck
    IN IF chk /\ req.prev > Last(s1) THEN [s |-> s1, result |-> "prevEntryNotFound"]
       ELSE IF chk /\ TermAt(s1, req.prev) # req.prevTerm THEN [s |-> s1, result |-> "prevTermMismatch"]
       ELSE LET s2 == IF req.prev > s1.snapIdx /\ CanCommit(s1, req, req.prev, req.prevTerm)
                      THEN ApplyCommittedF(SetCommitIndexR(s1, req.prev)) ELSE s1
                c  == Consume(s2, req.ents, req.prev, req.prevTerm, FALSE)
                \* (FixD13: everything that is acknowledged is flushed, also entries that were already in the log)
                s3 == IF c.appended \/ FixD13
                      THEN LET sf == IF G_FlushBeforeAck THEN CommitLog(c.s) ELSE c.s
                           IN IF CanCommit(sf, req, c.idx, c.tm) THEN ApplyCommittedF(SetCommitIndexR(sf, c.idx)) ELSE sf
                      ELSE c.s
            IN [s |-> s3, result |-> "success"]

\* onInstallSnapRequest: publish the snapshot, then either keep the matching log suffix or discard the log and restore the FSM
OnInstallSnapRequest(s, req) ==
    IF G_StaleTermAppend /\ req.term < s.term THEN [s |-> s, result |-> "staleTerm"]
    ELSE
    LET s1 == [SetTerm(s, Max(req.term, s.term)) EXCEPT !.state = "F", !.leader = req.src]
        s2 == [s1 EXCEPT !.snapIdx = req.idx, !.snapTerm = req.sterm, !.snapCfg = req.cfg, !.snapCmds = req.cmds]
    IN \* (FixD22: a request delivered late, for a snapshot the node's commit index already covers, is answered without
       \*  installing anything; the code as found discarded the committed entries that follow the snapshot index)
       IF FixD22 /\ req.idx <= s1.commit THEN [s |-> s1, result |-> "success"]
       ELSE IF HasIdx(s2, req.idx) /\ TermAt(s2, req.idx) = req.sterm
       THEN \* (FixD23: the log is kept as it is; the code as found compacted it up to the snapshot index although the
            \*  state machine had not applied those entries and is not restored on this path)
            [s |-> IF FixD23 THEN s2 ELSE CompactLog(s2, req.idx), result |-> "success"]
       ELSE LET s3 == [s2 EXCEPT !.log = << >>, !.logPrev = req.idx, !.bnds = {req.idx}, !.synced = req.idx,
                                 !.fsmQ = Append(@, [kind |-> "restore"]), !.commit = req.idx]
            IN [s |-> CommitConfig(ChangeConfig(s3, req.cfg)), result |-> "success"]

--------------------------------------------------------------------------
(* replication.go (one process per leader i and follower j)                *)

Repl(s, j) == s.ldr.repl[j]
NotifyLdr(s, u) == [s EXCEPT !.ldr.replQ = Append(@, u)]
MaybeLdrUpdates(s) == IF EagerLdr THEN CheckReplUpdates(s) ELSE s

\* checkLeaderUpdate (non-blocking arm) + onLeaderUpdate
Poll(s, j) ==
    LET r == Repl(s, j) IN
    IF ~r.lu.on THEN s
    ELSE IF r.lu.nil THEN [s EXCEPT !.died = "replication"]
    ELSE LET s1 == IF r.lu.vprev > r.vprev THEN NotifyLdr(s, [j |-> j, kind |-> "removeLTE", val |-> r.lu.vprev]) ELSE s
         IN [s1 EXCEPT !.ldr.repl[j].vprev = r.lu.vprev, !.ldr.repl[j].vlast = r.lu.vlast,
                       !.ldr.repl[j].rcommit = r.lu.commit,
                       !.ldr.repl[j].voter = IF r.lu.cfg THEN IsVoter(s.cfgL, j) ELSE @,
                       !.ldr.repl[j].lu = NoLu]

NotifyNoContact(s, j, flag) == NotifyLdr(s, [j |-> j, kind |-> "noContact", val |-> flag])

\* replicate() returned an I/O error: connection dropped, failures++, first failure notifies
ReplFailed(s, j) ==
    LET r  == Repl(s, j)
        s1 == [s EXCEPT !.ldr.repl[j].up = FALSE, !.ldr.repl[j].reqs = << >>, !.ldr.repl[j].resps = << >>,
                        !.ldr.repl[j].mode = "probe", !.ldr.repl[j].failures = r.failures + 1]
    IN IF r.failures = 0 THEN NotifyNoContact(s1, j, TRUE) ELSE s1

\* reading index i through the replication's log view: the view thinks it holds (vprev, vlast]; indexes the
\* leader compacted away meanwhile are in segments that were unmapped and unlinked (nil dereference)
\* (FixD11: log.segment() treats the broken chain as "not found" instead of dereferencing nil)
ViewRead(s, r, i) == IF r.vnil THEN "nil" ELSE IF i <= r.vprev THEN "notFound" ELSE IF i <= s.logPrev THEN (IF FixD11 THEN "notFound" ELSE "gone") ELSE "ok"

SnapReqMsg(s, j) == [kind |-> "snap", term |-> Repl(s, j).term, src |-> s.id, prev |-> 0, prevTerm |-> 0, ents |-> << >>, commit |-> 0,
                     reqLast |-> s.snapIdx, idx |-> s.snapIdx, sterm |-> s.snapTerm, cfg |-> s.snapCfg, cmds |-> s.snapCmds]

\* one write by the replication goroutine on an established connection:
\* writeAppendEntriesReq (probe: no entries; pipeline: entries from the view) or, when the needed entry is
\* no longer in the view (log.ErrNotFound), sendInstallSnapReq
ReplWrite(s, j) ==
    LET r    == Repl(s, j)
        prev == r.next - 1
        pst  == IF prev # 0 /\ prev # s.snapIdx THEN ViewRead(s, r, prev) ELSE "ok"
        pipe == r.mode = "pipe"
        n    == IF pipe THEN Min(r.vlast - prev, MaxAppend) ELSE 0
        cst  == IF n > 0 THEN (IF r.vnil THEN "nil" ELSE IF r.next <= r.vprev THEN "notFound" ELSE IF r.next <= s.logPrev THEN (IF FixD11 THEN "notFound" ELSE "gone") ELSE "ok") ELSE "ok"
    IN IF pst \in {"nil", "gone"} \/ (pst = "ok" /\ cst \in {"nil", "gone"})
       THEN [s |-> [s EXCEPT !.died = "replication"], kind |-> "died"]
       ELSE IF pst = "notFound" \/ cst = "notFound"
       THEN IF pipe
            THEN \* the pipeline writer returns ErrNotFound: pipeline ends, responses are drained, replicate() probes again
                 [s |-> [s EXCEPT !.ldr.repl[j].mode = IF Len(r.reqs) + Len(r.resps) = 0 THEN "probe" ELSE "drain"], kind |-> "needSnap"]
            ELSE [s |-> [s EXCEPT !.ldr.repl[j].reqs = Append(@, SnapReqMsg(s, j)), !.ldr.repl[j].mode = "snap"], kind |-> "snap"]
       ELSE LET req == [kind |-> "append", term |-> r.term, src |-> s.id, prev |-> prev,
                        prevTerm |-> IF prev = 0 THEN 0 ELSE IF prev = s.snapIdx THEN s.snapTerm ELSE TermAt(s, prev),
                        ents |-> [k \in 1..n |-> EntryAt(s, prev + k)], commit |-> r.rcommit, reqLast |-> prev + n]
            IN [s |-> [s EXCEPT !.ldr.repl[j].reqs = Append(@, req), !.ldr.repl[j].next = prev + n + 1, !.ldr.repl[j].canWrite = FALSE],
                kind |-> "req", req |-> req]
WriteEv(w, i, j, mode) ==
    IF w.kind = "req" THEN [kind |-> "replSend", i |-> i, j |-> j, mode |-> mode,
                            req |-> [term |-> w.req.term, prev |-> w.req.prev, prevTerm |-> w.req.prevTerm, n |-> Len(w.req.ents), commit |-> w.req.commit]]
    ELSE IF w.kind = "snap" THEN [kind |-> "replSend", i |-> i, j |-> j, needSnap |-> TRUE, snapIndex |-> w.s.snapIdx]
    ELSE IF w.kind = "needSnap" THEN [kind |-> "replSend", i |-> i, j |-> j, needSnap |-> TRUE]
    ELSE [kind |-> "replSend", i |-> i, j |-> j, died |-> TRUE]

--------------------------------------------------------------------------
(* Actions                                                                 *)

Up(n) == node[n].up /\ node[n].died = ""

\* process kill: volatile state is gone, the unflushed log tail is gone
Crashed(s) ==
    [s EXCEPT !.up = FALSE, !.state = "D", !.cur = "D", !.leader = None, !.commit = 0,
              !.log = SubSeq(@, 1, s.synced - s.logPrev), !.term = s.dterm, !.vote = s.dvote,
              !.aborted = FALSE, !.votesNeeded = 0, !.selfVote = FALSE, !.cndTransfer = FALSE,
              !.fsmIdx = 0, !.fsmTerm = 0, !.fsmCmds = << >>, !.fsmQ = << >>, !.ldr = NoLdr, !.outbox = {}, !.done = << >>, !.snapG = NoSnapG]

\* flush a node's outbox into the network, its done-list into the event, and (eager) its FSM queue
\* (a node whose handler, FSM or replication goroutine hit an assertion / nil dereference is a dead process)
SettleNode(s0) == LET s1 == IF EagerFsm THEN FsmDrain(s0) ELSE s0
                      s  == IF s1.died # "" /\ s1.up THEN [Crashed(s1) EXCEPT !.died = s1.died] ELSE s1
                  IN [s EXCEPT !.outbox = {}, !.acts = {}]
\* requests written on connections whose replication no longer exists (leader stepped down, follower removed).
\* orph is a SEQUENCE (a bag would do): two abandoned connections may carry identical requests.
RECURSIVE SetToSeq(_)
SetToSeq(S) == IF S = {} THEN << >> ELSE LET x == CHOOSE y \in S : TRUE IN <<x>> \o SetToSeq(S \ {x})
ReqsOf(s, i, j) == [k \in 1..Len(s.ldr.repl[j].reqs) |-> [from |-> i, to |-> j, req |-> s.ldr.repl[j].reqs[k]]]
RECURSIVE Concat(_, _)
Concat(f, q) == IF q = << >> THEN << >> ELSE f[Head(q)] \o Concat(f, Tail(q))
Abandoned(before, after, T) ==
    LET pairs == {<<i, j>> \in T \X Node : before[i].ldr.on /\ j \in DOMAIN before[i].ldr.repl /\ before[i].ldr.repl[j].reqs # << >>
                                          /\ after[i].up /\ (~after[i].ldr.on \/ j \notin DOMAIN after[i].ldr.repl)}
    IN Concat([p \in pairs |-> ReqsOf(before[p[1]], p[1], p[2])], SetToSeq(pairs))

\* completed tasks as a set of [n, op, res, k]: k-th completion with that (op, result) on node n in this step
OpOf(task) == IF task < 1000 THEN "update" ELSE IF task < 2000 THEN "changeConfig" ELSE IF task < 3000 THEN "takeSnapshot"
              ELSE IF task < 4000 THEN "transfer" ELSE IF task < 5000 THEN "read" ELSE IF task < 6000 THEN "barrier" ELSE "dirty"
\* [n, op, res, k, task, val, pos, rd]: val = the command of an update; pos = its position in the state machine (or the index
\* of a snapshot taken); rd = what a read returned
DoneOfNode(s) == {LET d == s.done[k]
                      op == OpOf(d.task)
                  IN [n |-> s.id, op |-> op, res |-> d.res, task |-> d.task,
                      k |-> Cardinality({i \in 1..k : OpOf(s.done[i].task) = op /\ s.done[i].res = d.res}),
                      val |-> IF op = "update" THEN d.task ELSE 0,
                      pos |-> IF op \in {"update", "takeSnapshot"} /\ d.res = "ok" THEN d.pos ELSE 0,
                      rd  |-> IF "rd" \in DOMAIN d THEN d.rd ELSE << >>]
                  : k \in 1..Len(s.done)}
\* every action ends here. T = the nodes this step touched (all others are exactly as the previous step left them)
Commit(ns0, newRpcs, newOrph, e) ==
    \E nsx \in {ns0} :   \* (forces the handler result to be evaluated exactly once)
    LET T    == {n \in Node : nsx[n] # node[n]}
        \* processes that stopped in this step (crash, shutdown, self-removal, death by panic)
        gone == {n \in T : node[n].up /\ (~nsx[n].up \/ nsx[n].died # "")}
        \* connections whose server side is gone are dead: nothing written on them is handled any more
        ns   == IF gone = {} THEN nsx
                ELSE [m \in Node |-> IF m \notin gone /\ nsx[m].up /\ nsx[m].ldr.on /\ (DOMAIN nsx[m].ldr.repl) \cap gone # {}
                                      THEN [nsx[m] EXCEPT !.ldr.repl = [j \in DOMAIN nsx[m].ldr.repl |->
                                                IF j \in gone THEN [nsx[m].ldr.repl[j] EXCEPT !.reqs = << >>, !.pdead = nsx[m].ldr.repl[j].up]
                                                ELSE nsx[m].ldr.repl[j]]]
                                      ELSE nsx[m]]
        T2   == {n \in Node : ns[n] # node[n]}
        nsS  == [n \in Node |-> IF n \in T2 THEN SettleNode(ns[n]) ELSE ns[n]]
        \* tasks completed in this step (what their submitters see), then the lists are cleared
        dn   == UNION {DoneOfNode(nsS[n]) : n \in T2}
        ns1  == [n \in Node |-> IF nsS[n].done # << >> THEN [nsS[n] EXCEPT !.done = << >>] ELSE nsS[n]]
        acts == UNION {ns[n].acts : n \in T2}
        e1   == e @@ [rf |-> rfc, acts |-> acts, done |-> dn]
        rp   == newRpcs \cup UNION {ns[n].outbox : n \in T2}
        op   == IF Orphans THEN newOrph \o Abandoned(node, ns1, T2) ELSE newOrph
    IN
    /\ node' = ns1
    /\ rpcs' = {m \in rp : m.from \notin gone}
    /\ orph' = SelectSeq(op, LAMBDA o : o.to \notin gone)
    /\ gh' = GhostStep(gh, node, ns1, e1, T2)
    /\ ev' = e1
    /\ hist' = IF KeepHist THEN Append(hist, e @@ [rf |-> rfc]) ELSE hist
    /\ LET pend == ctr.cfgReqs < MaxCfgReqs \/ (\E n \in Node : HasActions(ns1[n].cfgL.nodes))
                   \/ (\E n \in Node : ns1[n].up /\ ns1[n].ldr.on /\ (ns1[n].ldr.xfer.on \/ ctr.xfers < MaxXfers))
       IN /\ ordc' \in (IF pend THEN AllOrds ELSE {<< >>})
          /\ rfc' \in (IF pend THEN RoundFastSet ELSE {TRUE})

Timeout(n) ==
    /\ Up(n)
    /\ LET s == node[n] IN
       \/ /\ s.state = "F" /\ ~s.aborted
          /\ LET s1 == [s EXCEPT !.leader = None]
                 s2 == IF CanStartElection(s1) THEN [s1 EXCEPT !.state = "C"] ELSE [s1 EXCEPT !.aborted = TRUE]
             IN /\ (CanStartElection(s1) => (s1.term < MaxTerm /\ Last(s1) < MaxLog /\ ctr.elections < MaxElections))   \* model bound
                /\ ctr' = [ctr EXCEPT !.elections = IF CanStartElection(s1) THEN @ + 1 ELSE @]
                /\ Commit([node EXCEPT ![n] = Post(s2)], rpcs, orph, [kind |-> "timeout", n |-> n, state |-> "F"])
       \/ /\ s.state = "C" /\ s.term < MaxTerm /\ ctr.elections < MaxElections
          /\ Commit([node EXCEPT ![n] = Post(StartElection(s))], rpcs, orph, [kind |-> "timeout", n |-> n, state |-> "C"])
          /\ ctr' = [ctr EXCEPT !.elections = @ + 1]

\* candidate.onVoteResult
OnVoteResult(s, result, respTerm) ==
    IF respTerm > s.term THEN SetTerm([s EXCEPT !.state = "F"], respTerm)
    ELSE IF result = "success"
    THEN LET vn == s.votesNeeded - 1 IN
         IF vn = 0 \/ (~G_VoteQuorum /\ vn <= 1) THEN [s EXCEPT !.votesNeeded = vn, !.state = "L", !.leader = s.id]
         ELSE [s EXCEPT !.votesNeeded = vn]
    ELSE s

\* respCh is FIFO: a self vote still queued is consumed before anything that arrives later
ConsumeSelfFirst(s) == IF s.selfVote THEN Post(OnVoteResult([s EXCEPT !.selfVote = FALSE], "success", s.term)) ELSE s

\* identity handshake on the server side (replyRPC: reset timer iff the peer is the known leader)
Identity(s, from) == IF s.state = "F" /\ from = s.leader THEN ResetTimer(s) ELSE s

\* deliver a vote / timeout-now request
\* drop: the request never reaches the peer although it is running (partition); the dialer sees an error
RpcReqX(m, drop) ==
    /\ m \in rpcs /\ m.phase = 0
    /\ LET n == m.to IN
       IF ~Up(n) \/ drop
       THEN \* the dialer sees an error; its (ignored) result goes through respCh, behind the self vote
            LET c == node[m.from]
                cur == Up(m.from) /\ m.kind = "vote" /\ c.state = "C" /\ c.term = m.term
                \* timeout-now: the error reaches the transferring leader through transfer.respCh (if still that attempt)
                xcur == Up(m.from) /\ m.kind = "timeoutNow" /\ c.state = "L" /\ c.cur = "L" /\ c.ldr.xfer.resp /\ c.ldr.xfer.seq = m.xseq
            IN Commit(IF cur THEN [node EXCEPT ![m.from] = ConsumeSelfFirst(c)]
                      ELSE IF xcur THEN [node EXCEPT ![m.from] = Post(MaybeLdrUpdates(OnTimeoutNowResult(c, m.to, "err")))]
                      ELSE node, rpcs \ {m}, orph,
                      [kind |-> m.kind \o "Req", n |-> n, from |-> m.from, term |-> m.term, lost |-> TRUE] @@ (IF drop THEN [dropped |-> TRUE] ELSE << >>))
       ELSE LET s0 == Identity(node[n], m.from)
                pre == s0.leader
                h  == IF m.kind = "vote" THEN OnVoteRequest(s0, m) ELSE OnTimeoutNowRequest(s0)
                s1 == IF h.s.state = "F" /\ (m.kind # "vote" \/ h.result = "success") THEN ResetTimer(h.s) ELSE h.s
                s2 == Post(s1)
                resp == [m EXCEPT !.phase = 1, !.result = h.result, !.respTerm = h.s.term]
                c == node[m.from]
                \* the reply matters only to the election (from, term) if that election is still running
                useful == m.kind # "vote" \/ (c.up /\ c.state = "C" /\ c.term = m.term /\ (h.result = "success" \/ h.s.term > c.term))
            IN Commit([node EXCEPT ![n] = s2], (rpcs \ {m}) \cup (IF Reduce /\ ~useful THEN {} ELSE {resp}), orph,
                      [kind |-> m.kind \o "Req", n |-> n, from |-> m.from, term |-> m.term, transfer |-> m.transfer,
                       result |-> h.result, respTerm |-> h.s.term, preLeader |-> pre])
    /\ UNCHANGED ctr

RpcReq(m) == RpcReqX(m, FALSE)

\* deliver a response to the node that sent the request (m.from)
RpcResp(m) ==
    /\ m \in rpcs /\ m.phase = 1
    /\ LET n == m.from
           s == node[n]
           current == Up(n) /\ m.kind = "vote" /\ s.state = "C" /\ s.term = m.term
           s0 == IF current THEN ConsumeSelfFirst(s) ELSE s
           still == current /\ s0.state = "C" /\ s0.term = m.term
           xcur == Up(n) /\ m.kind = "timeoutNow" /\ s.state = "L" /\ s.cur = "L" /\ s.ldr.xfer.resp /\ s.ldr.xfer.seq = m.xseq
       IN Commit([node EXCEPT ![n] = IF still THEN Post(OnVoteResult(s0, m.result, m.respTerm))
                                     ELSE IF xcur THEN Post(MaybeLdrUpdates(OnTimeoutNowResult(s, m.to, m.result)))
                                     ELSE s0],
                 rpcs \ {m}, orph,
                 [kind |-> m.kind \o "Resp", n |-> n, from |-> m.to, term |-> m.term, result |-> m.result,
                  respTerm |-> m.respTerm, current |-> (current \/ xcur)])
    /\ UNCHANGED ctr

SelfVote(n) ==
    /\ Up(n) /\ node[n].state = "C" /\ node[n].selfVote
    /\ LET s == [node[n] EXCEPT !.selfVote = FALSE] IN
       Commit([node EXCEPT ![n] = Post(OnVoteResult(s, "success", s.term))], rpcs, orph,
              [kind |-> "voteResp", n |-> n, from |-> n, term |-> s.term, self |-> TRUE, result |-> "success", respTerm |-> s.term])
    /\ UNCHANGED ctr

Disconnected(n, p) ==
    /\ Up(n) /\ node[n].leader = p /\ p # None /\ p # n
    /\ Commit([node EXCEPT ![n].leader = None], rpcs, orph, [kind |-> "disconnected", n |-> n, peer |-> p])
    /\ UNCHANGED ctr

\* ---- replication ----
LiveRepl(i, j) == Up(i) /\ node[i].cur = "L" /\ node[i].state = "L" /\ j \in DOMAIN node[i].ldr.repl /\ ~Repl(node[i], j).ended

\* dialFail: connPool.getConn fails although the peer is running (unreachable: partition, dial timeout)
ReplSendX(i, j, dialFail) ==
    /\ LiveRepl(i, j)
    /\ (dialFail => ~Repl(node[i], j).up)
    /\ LET s == node[i]
           r == Repl(s, j)
       IN IF ~r.up
          THEN \* runLoop: (after a failure) poll, then getConn: dial + identity handshake
               LET sp == IF r.failures > 0 THEN Poll(s, j) ELSE s IN
               IF ~Up(j) \/ dialFail
               THEN LET s1 == [sp EXCEPT !.ldr.repl[j].failures = r.failures + 1]
                        s2 == IF r.failures = 0 THEN NotifyNoContact(s1, j, TRUE) ELSE s1
                    IN Commit([node EXCEPT ![i] = Post(MaybeLdrUpdates(s2))], rpcs, orph,
                              [kind |-> "replSend", i |-> i, j |-> j, connect |-> "failed"] @@ (IF dialFail THEN [dialFail |-> TRUE] ELSE << >>))
               ELSE LET t1 == Post(Identity(node[j], i))
                        s1 == [sp EXCEPT !.ldr.repl[j].up = TRUE, !.ldr.repl[j].mode = "probe", !.ldr.repl[j].failures = 0, !.ldr.repl[j].pdead = FALSE]
                        s2 == IF r.failures > 0 THEN Poll(NotifyNoContact(s1, j, FALSE), j) ELSE s1
                        s3 == IF EagerPoll THEN Poll(s2, j) ELSE s2
                        w  == IF s3.died # "" THEN [s |-> s3, kind |-> "died"] ELSE ReplWrite(s3, j)
                    IN Commit([node EXCEPT ![i] = Post(MaybeLdrUpdates(w.s)), ![j] = t1], rpcs, orph,
                              WriteEv(w, i, j, "probe") @@ [connect |-> "ok"])
          ELSE LET \* pipeline writer: an update consumed by checkLeaderUpdate makes it write even when nothing is new
                   s1 == IF ~EagerPoll THEN s
                         ELSE IF Repl(s, j).lu.on /\ Repl(s, j).mode = "pipe" THEN [Poll(s, j) EXCEPT !.ldr.repl[j].canWrite = TRUE]
                         ELSE Poll(s, j)
                   r1 == Repl(s1, j)
               IN IF s1.died # "" THEN Commit([node EXCEPT ![i] = s1], rpcs, orph, [kind |-> "replSend", i |-> i, j |-> j, died |-> TRUE])
                  ELSE
                  \/ /\ r1.mode = "probe" /\ r1.reqs = << >> /\ r1.resps = << >>
                     /\ LET w == ReplWrite(s1, j)
                        IN Commit([node EXCEPT ![i] = Post(MaybeLdrUpdates(w.s))], rpcs, orph, WriteEv(w, i, j, "probe"))
                  \/ /\ r1.mode = "pipe"
                     /\ Len(r1.reqs) + Len(r1.resps) < MaxInflight
                     /\ (r1.canWrite \/ r1.next <= r1.vlast \/ (r1.reqs = << >> /\ r1.resps = << >>))
                     /\ (r1.next > r1.vlast => (r1.voter \/ r1.canWrite))
                     /\ LET w == ReplWrite(s1, j)
                        IN Commit([node EXCEPT ![i] = Post(MaybeLdrUpdates(w.s))], rpcs, orph, WriteEv(w, i, j, "pipe"))
    /\ UNCHANGED ctr

ReplSend(i, j) == ReplSendX(i, j, FALSE)

\* the server side handles the head request of the current connection
HandleAppend(j, req) ==
    LET h  == IF req.kind = "snap" THEN OnInstallSnapRequest(node[j], req) ELSE OnAppendEntriesRequest(node[j], req)
        s1 == IF h.s.state = "F" THEN ResetTimer(h.s) ELSE h.s
    IN [s |-> Post(s1), result |-> h.result, respTerm |-> h.s.term, respLast |-> IF req.kind = "snap" THEN 0 ELSE Last(h.s)]

AppendReq(i, j) ==
    /\ Up(i) /\ node[i].ldr.on /\ j \in DOMAIN node[i].ldr.repl /\ Repl(node[i], j).reqs # << >>
    /\ LET req == Head(Repl(node[i], j).reqs) IN
       IF ~Up(j) \/ Repl(node[i], j).pdead   \* the server side of this connection died: nothing is handled any more
       THEN Commit([node EXCEPT ![i].ldr.repl[j].reqs = Tail(@)], rpcs, orph,
                   [kind |-> req.kind \o "Req", i |-> i, j |-> j, lost |-> TRUE])
       ELSE LET h == HandleAppend(j, req)
                resp == [kind |-> req.kind, result |-> h.result, term |-> h.respTerm, last |-> h.respLast, reqLast |-> req.reqLast]
                ns1 == [node EXCEPT ![j] = h.s]
                ns2 == [ns1 EXCEPT ![i].ldr.repl[j].reqs = Tail(@), ![i].ldr.repl[j].resps = Append(@, resp)]
            IN Commit(ns2, rpcs, orph,
                      [kind |-> req.kind \o "Req", i |-> i, j |-> j, result |-> h.result, respTerm |-> h.respTerm, respLast |-> h.respLast,
                       req |-> [term |-> req.term, prev |-> req.prev, prevTerm |-> req.prevTerm, n |-> Len(req.ents), commit |-> req.commit]])
    /\ UNCHANGED ctr

\* a request of an abandoned connection / dead leader reaches the follower late
DropAt(q, k) == SubSeq(q, 1, k - 1) \o SubSeq(q, k + 1, Len(q))
OrphanReq(k) ==
    /\ Orphans /\ k \in 1..Len(orph)
    /\ LET o == orph[k] IN
       IF ~Up(o.to)
       THEN Commit(node, rpcs, DropAt(orph, k), [kind |-> o.req.kind \o "Req", i |-> o.from, j |-> o.to, lost |-> TRUE, orphan |-> TRUE])
       ELSE LET h == HandleAppend(o.to, o.req)
            IN Commit([node EXCEPT ![o.to] = h.s], rpcs, DropAt(orph, k),
                      [kind |-> o.req.kind \o "Req", i |-> o.from, j |-> o.to, orphan |-> TRUE, result |-> h.result, respTerm |-> h.respTerm, respLast |-> h.respLast,
                       req |-> [term |-> o.req.term, prev |-> o.req.prev, prevTerm |-> o.req.prevTerm, n |-> Len(o.req.ents), commit |-> o.req.commit]])
    /\ UNCHANGED ctr

\* replicate(): after a probe response and the poll: matchIndex found -> pipeline, or snapshot if the next entry was compacted away
AfterProbe(s, j) ==
    IF s.died # "" THEN s
    ELSE LET r == Repl(s, j) IN
         IF r.rmatch + 1 = r.next
         THEN IF r.next < r.vlast /\ (r.vnil \/ ~(r.next > r.vprev /\ r.next <= r.vlast))
              THEN IF r.vnil THEN [s EXCEPT !.died = "replication"]
                   ELSE [s EXCEPT !.ldr.repl[j].reqs = Append(@, SnapReqMsg(s, j)), !.ldr.repl[j].mode = "snap"]
              ELSE [s EXCEPT !.ldr.repl[j].mode = "pipe", !.ldr.repl[j].canWrite = TRUE]
         ELSE s

\* replication.onAppendEntriesResp in probe / pipeline / drain mode
OnAppendResp(s, j, resp) ==
    LET r == Repl(s, j) IN
    IF resp.kind = "snap"
    THEN \* sendInstallSnapReq reading its response
         IF resp.result = "staleTerm"
         THEN [NotifyLdr(s, [j |-> j, kind |-> "newTerm", val |-> resp.term]) EXCEPT !.ldr.repl[j].ended = TRUE]
         ELSE IF resp.result = "success"
         THEN \* (waits, polling leader updates, until its view covers the snapshot index)
              LET s0 == IF resp.reqLast > r.vlast THEN Poll(s, j) ELSE s
                  s1 == [s0 EXCEPT !.ldr.repl[j].rmatch = resp.reqLast, !.ldr.repl[j].next = resp.reqLast + 1, !.ldr.repl[j].mode = "probe"]
              IN NotifyLdr(s1, [j |-> j, kind |-> "match", val |-> resp.reqLast])
         ELSE ReplFailed(s, j)
    ELSE IF r.mode = "probe"
    THEN IF resp.result = "staleTerm"
         THEN [NotifyLdr(s, [j |-> j, kind |-> "newTerm", val |-> resp.term]) EXCEPT !.ldr.repl[j].ended = TRUE]
         ELSE IF resp.result = "success"
         THEN LET reqLast == r.next - 1
                  s1 == IF reqLast > r.rmatch
                        THEN NotifyLdr([s EXCEPT !.ldr.repl[j].rmatch = reqLast], [j |-> j, kind |-> "match", val |-> reqLast])
                        ELSE s
                  s2 == Poll(s1, j)
              IN AfterProbe(s2, j)
         ELSE \* prevEntryNotFound / prevTermMismatch
              IF resp.last < r.rmatch THEN ReplFailed(s, j)   \* ErrFaultyFollower
              ELSE LET s1 == Poll([s EXCEPT !.ldr.repl[j].next = Min(r.next - 1, resp.last + 1)], j)
                   IN AfterProbe(s1, j)
    ELSE IF r.mode = "pipe"
    THEN IF resp.result = "success"
         THEN IF resp.reqLast > r.rmatch
              THEN NotifyLdr([s EXCEPT !.ldr.repl[j].rmatch = resp.reqLast], [j |-> j, kind |-> "match", val |-> resp.reqLast])
              ELSE s
         ELSE IF resp.result = "staleTerm"
         THEN [NotifyLdr(s, [j |-> j, kind |-> "newTerm", val |-> resp.term]) EXCEPT !.ldr.repl[j].ended = TRUE]
         ELSE [s EXCEPT !.ldr.repl[j].mode = IF Len(r.reqs) + Len(r.resps) = 0 THEN "probe" ELSE "drain"]
    ELSE [s EXCEPT !.ldr.repl[j].mode = IF Len(r.reqs) + Len(r.resps) = 0 THEN "probe" ELSE "drain"]

AppendResp(i, j) ==
    /\ LiveRepl(i, j) /\ Repl(node[i], j).resps # << >>
    /\ LET s    == node[i]
           resp == Head(Repl(s, j).resps)
           s1   == [s EXCEPT !.ldr.repl[j].resps = Tail(@)]
           s2   == OnAppendResp(s1, j, resp)
       IN Commit([node EXCEPT ![i] = Post(MaybeLdrUpdates(s2))], rpcs, orph,
                 [kind |-> resp.kind \o "Resp", i |-> i, j |-> j, mode |-> Repl(s, j).mode, result |-> resp.result,
                  respTerm |-> resp.term, respLast |-> resp.last, reqLast |-> resp.reqLast])
    /\ UNCHANGED ctr

ReplFail(i, j) ==
    /\ LiveRepl(i, j) /\ Repl(node[i], j).up
    /\ LET s == node[i]
           left == ReqsOf(s, i, j)
       IN Commit([node EXCEPT ![i] = Post(MaybeLdrUpdates(ReplFailed(s, j)))], rpcs,
                 IF Orphans THEN orph \o left ELSE orph,
                 [kind |-> "replFail", i |-> i, j |-> j])
    /\ UNCHANGED ctr

ReplPoll(i, j) ==
    /\ ~EagerPoll /\ LiveRepl(i, j) /\ Repl(node[i], j).lu.on
    /\ LET s1 == Poll(node[i], j)
           s2 == IF Repl(s1, j).mode = "pipe" THEN [s1 EXCEPT !.ldr.repl[j].canWrite = TRUE] ELSE s1
       IN Commit([node EXCEPT ![i] = Post(MaybeLdrUpdates(s2))], rpcs, orph, [kind |-> "replPoll", i |-> i, j |-> j, got |-> TRUE])
    /\ UNCHANGED ctr

LdrUpdates(i) ==
    /\ ~EagerLdr /\ Up(i) /\ node[i].ldr.on /\ node[i].ldr.replQ # << >>
    /\ Commit([node EXCEPT ![i] = Post(CheckReplUpdates(node[i]))], rpcs, orph, [kind |-> "ldrUpdates", n |-> i])
    /\ UNCHANGED ctr

\* ---- clients / FSM ----
ClientTask(op, id) == IF op = "update" THEN id ELSE IF op = "read" THEN 4000 + id ELSE IF op = "barrier" THEN 5000 + id ELSE 6000 + id
ClientOp(n, op, id) ==
    /\ Up(n) /\ ctr.cmds < MaxCmds
    /\ LET s == node[n]
           task == ClientTask(op, id)
           e == [kind |-> "client", n |-> n, state |-> s.state, val |-> id, op |-> op, task |-> task]
       IN IF s.state = "L" /\ s.cur = "L"
          THEN /\ (op = "update" => Last(s) < MaxLog)
               /\ Commit([node EXCEPT ![n] = Post(IF op = "update" THEN StoreLogEntry(s, "upd", id, id) ELSE StoreNonLog(s, op, task))], rpcs, orph, e)
          ELSE IF op = "dirty"
          THEN \* any node answers a dirty read from its own state machine (queued behind what the FSM goroutine still has to do)
               Commit([node EXCEPT ![n].fsmQ = Append(@, [kind |-> "dirtyRead", task |-> task])], rpcs, orph, e)
          ELSE Commit([node EXCEPT ![n].done = Append(@, [task |-> task, res |-> "notLeader", pos |-> 0])], rpcs, orph, e)
    /\ ctr' = [ctr EXCEPT !.cmds = @ + 1]

Client(n) == \E op \in ClientOps : ClientOp(n, op, ctr.cmds + 1)

\* ---- membership requests (raft.go executeTask -> leader.onChangeConfig / Raft.bootstrap) ----
CfgEdits == {[id |-> i, kind |-> "addPromote"] : i \in EdAddPromote} \cup {[id |-> i, kind |-> "addNonvoter"] : i \in EdAddNonvoter}
       \cup {[id |-> i, kind |-> "promote"] : i \in EdPromote} \cup {[id |-> i, kind |-> "demote"] : i \in EdDemote}
       \cup {[id |-> i, kind |-> "remove"] : i \in EdRemove} \cup {[id |-> i, kind |-> "forceRemove"] : i \in EdForceRemove}
ApplyEdit(nodes, e) ==
    IF e.kind \in {"addNonvoter", "addPromote"}
    THEN IF e.id \in DOMAIN nodes THEN nodes
         ELSE [i \in (DOMAIN nodes) \cup {e.id} |-> IF i = e.id THEN [voter |-> FALSE, action |-> IF e.kind = "addPromote" THEN "promote" ELSE "none"] ELSE nodes[i]]
    ELSE IF e.id \in DOMAIN nodes THEN [nodes EXCEPT ![e.id].action = e.kind] ELSE nodes
RECURSIVE ApplyEdits(_, _)
ApplyEdits(nodes, S) == IF S = {} THEN nodes ELSE LET e == CHOOSE x \in S : TRUE IN ApplyEdits(ApplyEdit(nodes, e), S \ {e})
CfgRequests(s) == {ApplyEdits(s.cfgL.nodes, S) : S \in {T \in SUBSET CfgEdits : Cardinality(T) \in 1..2 /\ \A a, b \in T : a.id = b.id => a = b}} \ {s.cfgL.nodes}

ChangeConfigOp(n, nodes) ==
    /\ Up(n) /\ node[n].state = "L" /\ node[n].cur = "L" /\ ctr.cfgReqs < MaxCfgReqs
    /\ Last(node[n]) < MaxLog
    /\ LET task == 1000 + ctr.cfgReqs + 1
       IN Commit([node EXCEPT ![n] = Post(OnChangeConfig(node[n], nodes, task))], rpcs, orph,
                 [kind |-> "changeConfig", n |-> n, task |-> task,
                  nodes |-> [i \in DOMAIN nodes |-> nodes[i]]])
    /\ ctr' = [ctr EXCEPT !.cfgReqs = @ + 1]
ChangeConfigReq(n) == \E nodes \in CfgRequests(node[n]) : ChangeConfigOp(n, nodes)

\* ---- leadership transfer (task, timers) ----
TransferOp(n, target) ==
    /\ Up(n) /\ node[n].state = "L" /\ node[n].cur = "L" /\ ctr.xfers < MaxXfers
    /\ LET task == 3000 + ctr.xfers + 1
       IN Commit([node EXCEPT ![n] = Post(MaybeLdrUpdates(OnTransfer(node[n], target, task)))], rpcs, orph,
                 [kind |-> "transfer", n |-> n, task |-> task, target |-> target])
    /\ ctr' = [ctr EXCEPT !.xfers = @ + 1]
\* stateLoop `case <-l.transfer.timer.C`
XferTimeout(n) ==
    /\ Up(n) /\ node[n].state = "L" /\ node[n].cur = "L" /\ node[n].ldr.xfer.on
    /\ Commit([node EXCEPT ![n] = Post(MaybeLdrUpdates(ReplyTransfer(node[n], "timeout")))], rpcs, orph, [kind |-> "xferTimeout", n |-> n])
    /\ UNCHANGED ctr
\* stateLoop `case <-l.transfer.newTermTimer.C`: the target did not start its election in time, try again
NewTermTimeout(n) ==
    /\ Up(n) /\ node[n].state = "L" /\ node[n].cur = "L" /\ node[n].ldr.xfer.on /\ node[n].ldr.xfer.nt
    /\ Commit([node EXCEPT ![n] = Post(MaybeLdrUpdates(TryTransfer([node[n] EXCEPT !.ldr.xfer.nt = FALSE])))], rpcs, orph,
              [kind |-> "newTermTimeout", n |-> n])
    /\ UNCHANGED ctr

Fsm(n) ==
    /\ ~EagerFsm /\ Up(n) /\ node[n].fsmQ # << >>
    /\ Commit([node EXCEPT ![n] = FsmItem(node[n])], rpcs, orph, [kind |-> "fsm", n |-> n])
    /\ UNCHANGED ctr

\* ---- snapshots (fsm.go) ----
\* raft.go/fsm.go onTakeSnapshot: the goroutine is handed (snapIdx + threshold, configs.Committed) NOW
\* the configuration in force at index idx: newest configuration entry at or below it, else the snapshot's
ConfigAt(s, idx) ==
    LET idxs == {i \in CfgIdxs(s) : i <= idx /\ i > s.snapIdx}
    IN IF idxs = {} THEN s.snapCfg
       ELSE LET i == SetMax(idxs) IN [index |-> i, term |-> EntryAt(s, i).t, nodes |-> EntryAt(s, i).c]
\* (FixD20: a follower's configs.Committed can be ahead of its commit index - it is inferred from the arrival of the next
\*  configuration entry; the label is then computed from the log)
SnapLabel(s) == IF FixD20 /\ s.cfgC.index > s.commit THEN ConfigAt(s, s.commit) ELSE s.cfgC
TakeSnapshotOp(n, thr) ==
    /\ Up(n) /\ ctr.snaps < MaxSnaps
    /\ LET s == node[n]
           task == 2000 + ctr.snaps + 1
       IN IF s.snapG.pc # "idle"
          THEN Commit([node EXCEPT ![n].done = Append(@, [task |-> task, res |-> "inProgress", pos |-> 0])], rpcs, orph,
                      [kind |-> "takeSnapshot", n |-> n, task |-> task, threshold |-> thr])
          ELSE IF FixD4
               THEN \* repaired: the raft goroutine queues the FSM request itself, in order with the apply requests
                    Commit([node EXCEPT ![n].snapG = [NoSnapG EXCEPT !.pc = "asked", !.target = s.snapIdx + thr, !.task = task, !.cfg = SnapLabel(s)],
                                        ![n].fsmQ = Append(@, [kind |-> "snapReq", target |-> s.snapIdx + thr])], rpcs, orph,
                           [kind |-> "takeSnapshot", n |-> n, task |-> task, threshold |-> thr])
               ELSE Commit([node EXCEPT ![n].snapG = [NoSnapG EXCEPT !.pc = "start", !.target = s.snapIdx + thr, !.task = task, !.cfg = SnapLabel(s)]], rpcs, orph,
                           [kind |-> "takeSnapshot", n |-> n, task |-> task, threshold |-> thr])
    /\ ctr' = [ctr EXCEPT !.snaps = @ + 1]
\* doTakeSnapshot: `fsm.ch <- req`
SnapGAsk(n) ==
    /\ Up(n) /\ node[n].snapG.pc = "start"
    /\ Commit([node EXCEPT ![n].snapG.pc = "asked", ![n].fsmQ = Append(@, [kind |-> "snapReq", target |-> node[n].snapG.target])], rpcs, orph,
              [kind |-> "snapGAsk", n |-> n])
    /\ UNCHANGED ctr
\* snapshotSink.done: the stored snapshot becomes the latest one
\* (FixD19: unless a newer snapshot was installed while this one was being written; retain = 1 then removes the older files)
StoreSnapshot(s, g) ==
    IF FixD19 /\ g.idx <= s.snapIdx THEN s
    ELSE [s EXCEPT !.snapIdx = g.idx, !.snapTerm = g.term, !.snapCfg = g.cfg, !.snapCmds = g.cmds]
\* doTakeSnapshot: snaps.new + Persist + sink.done (data file, then meta renamed into place; retain = 1)
SnapGStore(n) ==
    /\ Up(n) /\ node[n].snapG.pc \in {"got", "err"}
    /\ LET s == node[n]
           g == s.snapG
       IN IF g.pc = "err" THEN Commit([node EXCEPT ![n].snapG.pc = "stored"], rpcs, orph, [kind |-> "snapGStore", n |-> n, err |-> g.err])
          ELSE LET s1 == StoreSnapshot(s, g) IN
               Commit([node EXCEPT ![n] = [s1 EXCEPT !.snapG.pc = "stored"]], rpcs, orph, [kind |-> "snapGStore", n |-> n, index |-> s1.snapIdx])
    /\ UNCHANGED ctr
\* fsm.go onSnapshotTaken (stateLoop `case t := <-r.snapTakenCh`)
OnSnapshotTaken(s) ==
    LET g  == s.snapG
        s0 == [s EXCEPT !.snapG = NoSnapG]
    IN IF g.err # "" THEN [s0 EXCEPT !.done = Append(@, [task |-> g.task, res |-> g.err, pos |-> 0])]
       ELSE LET s1 ==
                IF HasIdx(s0, g.idx)
                THEN LET ms == IF s0.state = "L" /\ s0.ldr.on THEN {s0.ldr.repl[j].match : j \in DOMAIN s0.ldr.repl} ELSE {}
                         mr == IF s0.state = "L" /\ s0.ldr.on THEN {s0.ldr.repl[j].match : j \in {x \in DOMAIN s0.ldr.repl : ~s0.ldr.repl[x].noContact}} ELSE {}
                         nowC == CanLTE(s0, Min(g.idx, IF ms = {} THEN g.idx ELSE CHOOSE m \in ms : \A x \in ms : m <= x))
                         canC == CanLTE(s0, Min(g.idx, IF mr = {} THEN g.idx ELSE CHOOSE m \in mr : \A x \in mr : m <= x))
                         sa == IF nowC > s0.logPrev THEN CompactLog(s0, nowC) ELSE s0
                         \* (FixD5: after compacting at once the leader's removeLTE must follow PrevIndex)
                         sb == IF FixD5 /\ sa.ldr.on /\ sa.ldr.removeLTE < sa.logPrev THEN [sa EXCEPT !.ldr.removeLTE = sa.logPrev] ELSE sa
                     IN IF canC > nowC THEN NotifyFlr([sb EXCEPT !.ldr.removeLTE = canC], FALSE) ELSE sb
                ELSE s0
            IN [s1 EXCEPT !.done = Append(@, [task |-> g.task, res |-> "ok", pos |-> g.idx])]
\* Raft.release at the end of the state loop: `r.onSnapshotTaken(<-r.snapTakenCh)`; the FSM goroutine is still serving
RECURSIVE FsmUntilAnswered(_)
FsmUntilAnswered(s) == IF s.up /\ s.died = "" /\ s.snapG.pc = "asked" /\ s.fsmQ # << >> THEN FsmUntilAnswered(FsmItem(s)) ELSE s
FinishSnapshot(s) ==
    IF s.snapG.pc = "idle" THEN s
    ELSE LET s1 == IF s.snapG.pc = "start"
                   THEN [s EXCEPT !.snapG.pc = "asked", !.fsmQ = Append(@, [kind |-> "snapReq", target |-> s.snapG.target])] ELSE s
             s2 == FsmUntilAnswered(s1)
             g  == s2.snapG
             s3 == IF g.pc = "got" THEN [StoreSnapshot(s2, g) EXCEPT !.snapG.pc = "stored"]
                   ELSE IF g.pc = "err" THEN [s2 EXCEPT !.snapG.pc = "stored"] ELSE s2
         IN IF s3.snapG.pc = "stored" THEN OnSnapshotTaken(s3) ELSE s3
SnapshotTaken(n) ==
    /\ Up(n) /\ node[n].snapG.pc = "stored"
    /\ Commit([node EXCEPT ![n] = Post(OnSnapshotTaken(node[n]))], rpcs, orph, [kind |-> "snapTaken", n |-> n])
    /\ UNCHANGED ctr

\* ---- faults ----
Crash(n) ==
    /\ node[n].up /\ ctr.crashes < MaxCrash
    /\ LET s == node[n]
           \* requests the dying leader had written may still reach their destinations
           left == IF s.ldr.on
                   THEN Concat([j \in DOMAIN s.ldr.repl |-> ReqsOf(s, n, j)], SetToSeq(DOMAIN s.ldr.repl))
                   ELSE << >>
       IN Commit([node EXCEPT ![n] = Crashed(s)], rpcs, IF Orphans THEN orph \o left ELSE orph, [kind |-> "crash", n |-> n])
    /\ ctr' = [ctr EXCEPT !.crashes = @ + 1]

\* Raft.Shutdown: doClose(ErrServerClosed); the state loop returns, the current role is released
Shutdown(n) ==
    /\ Up(n)
    /\ Commit([node EXCEPT ![n] = Post([node[n] EXCEPT !.closed = TRUE])], rpcs, orph, [kind |-> "shutdown", n |-> n])
    /\ UNCHANGED ctr

\* storage.go openStorage + raft.go Serve
NewestCfgs(s) ==
    LET idxs == {i \in CfgIdxs(s) : i > s.snapIdx}   \* (the scan stops at the snapshot index even if older entries are retained)
        top  == IF idxs = {} THEN 0 ELSE SetMax(idxs)
        rest == idxs \ {top}
        snd  == IF rest = {} THEN 0 ELSE SetMax(rest)
        mk(i) == [index |-> i, term |-> EntryAt(s, i).t, nodes |-> EntryAt(s, i).c]
    IN [latest |-> IF top > 0 THEN mk(top) ELSE s.snapCfg,
        committed |-> IF snd > 0 THEN mk(snd) ELSE s.snapCfg]

Restart(n) ==
    /\ ~node[n].up
    /\ LET s == node[n]
           cf == NewestCfgs(s)
           s1 == [s EXCEPT !.up = TRUE, !.inc = @ + 1, !.died = "", !.state = "F", !.cur = "F",
                           !.cfgL = cf.latest, !.cfgC = cf.committed, !.commit = s.snapIdx,
                           !.fsmIdx = s.snapIdx, !.fsmTerm = s.snapTerm, !.fsmCmds = s.snapCmds]
       IN Commit([node EXCEPT ![n] = s1], rpcs, orph, [kind |-> "restart", n |-> n, ok |-> TRUE])
    /\ UNCHANGED ctr

--------------------------------------------------------------------------
InitVal == [node |-> [n \in Node |-> InitNode(n)], ctr |-> [cmds |-> 0, crashes |-> 0, elections |-> 0, cfgReqs |-> 0, snaps |-> 0, xfers |-> 0]]
Init ==
    /\ node = InitVal.node
    /\ rpcs = {} /\ orph = << >>
    /\ gh = GhostInit(Node)
    /\ ctr = InitVal.ctr
    /\ ev = [kind |-> "init"]
    /\ hist = << >>
    /\ ordc \in (IF MaxCfgReqs > 0 \/ MaxXfers > 0 THEN AllOrds ELSE {<< >>}) /\ rfc \in (IF MaxCfgReqs > 0 THEN RoundFastSet ELSE {TRUE})
\* back to the initial state (trace validation: a new recorded run starts)
Reset ==
    /\ node' = InitVal.node
    /\ rpcs' = {} /\ orph' = << >>
    /\ gh' = GhostInit(Node)
    /\ ctr' = InitVal.ctr
    /\ ev' = [kind |-> "init"]
    /\ hist' = << >>
    /\ ordc' \in (IF MaxCfgReqs > 0 \/ MaxXfers > 0 THEN AllOrds ELSE {<< >>}) /\ rfc' \in (IF MaxCfgReqs > 0 THEN RoundFastSet ELSE {TRUE})

Next ==
    \/ \E n \in Node : ChangeConfigReq(n) \/ SnapGAsk(n) \/ SnapGStore(n) \/ SnapshotTaken(n)
    \/ \E n \in Node, thr \in {0} : TakeSnapshotOp(n, thr)
    \/ \E n \in Node, t \in XferTargets : TransferOp(n, t)
    \/ \E n \in Node : XferTimeout(n) \/ NewTermTimeout(n)
    \/ \E n \in Node : Timeout(n) \/ SelfVote(n) \/ Client(n) \/ Fsm(n) \/ Crash(n) \/ Restart(n) \/ LdrUpdates(n)
    \/ \E m \in rpcs : RpcReq(m) \/ RpcResp(m) \/ (NetFaults /\ RpcReqX(m, TRUE))
    \/ \E i, j \in Node : NetFaults /\ ReplSendX(i, j, TRUE)
    \/ \E n, p \in Node : Disconnected(n, p)
    \/ \E i, j \in Node : ReplSend(i, j) \/ AppendReq(i, j) \/ AppendResp(i, j) \/ ReplFail(i, j) \/ ReplPoll(i, j)
    \/ \E k \in 1..Len(orph) : OrphanReq(k)

Spec == Init /\ [][Next]_vars

--------------------------------------------------------------------------
(* Invariants (the property operators of RaftProps on this specification's state) *)
Inv_C01 == C01_ElectionSafety(gh)
Inv_C02 == C02_CommittedAgree(gh, node) /\ C02_LeaderCompleteness(gh, node) /\ C02_CommittedStable(gh)
Inv_C03 == C03_FsmIsCommittedPrefix(gh, node) /\ C03_FsmNotAhead(gh, node)
Inv_C04 == C04_LogMatching(node) /\ C04_LeaderAppendOnly(gh)
Inv_C05 == C05_OneVotePerTerm(gh) /\ C05_TermMonotone(gh) /\ C05_GrantDurable(gh)
Inv_C06 == C06_MajorityDurable(gh)
Inv_C15 == C15_NoSelfInflictedDeath(node)
Inv_C08 == C08_OneVoterDelta(node) /\ C08_ConfigOnlyWhenSafe(gh)
Inv_C10 == C10_RestartOK(gh)
Inv_C11 == C11_OnlyVotersCampaign(gh) /\ C11_OnlyVotersLead(gh) /\ C11_OnlyVotersVote(gh) /\ C11_PromoteAfterRound(gh) /\ C11_StopOnlyWhenRemoved(gh) /\ C11_DemotedLeaderStepsDown(node)
Inv_C09 == C09_SnapshotCommitted(gh, node) /\ C09_NoViewInvalidation(node) /\ C03_FsmIsCommittedPrefix(gh, node)
Inv_C12 == C12_LabelOK(gh, node)
Inv_C17a == C17_LeaderStickiness(gh)
Inv_C07 == /\ C07_UpdateAtReportedPosition(gh) /\ C07_ReadsReflectAccepted(gh) /\ C07_ReadsOnlyCommitted(gh)
           /\ C07_AtMostOnce(node) /\ C07_RejectedNeverApplied(gh, node) /\ C07_RealTimeOrder(gh, node)
Inv_C16 == C16_SuccessMeansSteppedDown(gh) /\ C16_TargetEligible(gh) /\ C16_NoNewEntriesDuringTransfer(gh) /\ C01_ElectionSafety(gh)
Inv_C19 == C19_Ordered(node) /\ C19_LatestIsNewest(node) /\ C19_Monotone(gh)

Symm == Permutations(Node)
=============================================================================
