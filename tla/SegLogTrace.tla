---------------------------- MODULE SegLogTrace ----------------------------
(***************************************************************************)
(* Conformance of the real segmented log with SegLog.tla.                  *)
(* Input: records written by /verif/harness/log (one per executed          *)
(* operation: result, everything observable through the exported API, the  *)
(* crash images taken at every hook point inside the operation).           *)
(* For every record the specification action of that operation is taken    *)
(* with the recorded arguments and the successor state is compared with    *)
(* the observation:                                                        *)
(*  - a difference in what the API exposes (indexes, bytes, multi-entry    *)
(*    reads, contains, CanLTE/front removal, view stability, result) is a  *)
(*    C13 failure of the real log against the abstract sequence;           *)
(*  - a difference in segmentation detail only is reported as DRIFT;       *)
(*  - every crash image must satisfy SegLog!RecoverOK (C14).               *)
(* After a failure the rest of that run is skipped (the next run resets).  *)
(***************************************************************************)
EXTENDS SegLog, Json, IOUtils

Trace == ndJsonDeserialize(IOEnv.VERIF_TRACE)

VARIABLES l, skip, viol
tvars == <<lvars, l, skip, viol>>

Rec == Trace[l + 1]
O == Rec.op

ObsEnts(st) == [k \in 1..Len(st.ents) |-> [id |-> st.ents[k].id, size |-> st.ents[k].size]]
AllOK(st) == \A k \in 1..Len(st.ents) : st.ents[k].ok /\ st.ents[k].i = st.prev + k

\* what the exported API exposes (C13)
AbstractMatches(st) ==
    /\ st.prev = prev' /\ st.last = prev' + Len(ents') /\ st.count = Len(ents')
    /\ AllOK(st) /\ ObsEnts(st) = [k \in 1..Len(ents') |-> [id |-> ents'[k].id, size |-> ents'[k].size]]
    /\ st.getNOK /\ st.containsOK
    /\ Len(st.canLTE) = Len(ents') + 1
    /\ \A k \in 1..Len(st.canLTE) : st.canLTE[k] <= prev' + k - 1 /\ st.canLTE[k] >= prev'
    /\ Rec.res = res'
ViewsMatch ==
    \A k \in 1..Len(views') :
        k <= Len(Rec.views) /\
        (views'[k].live =>
            /\ Rec.views[k].nil = views'[k].nil
            /\ (~views'[k].nil =>
                  /\ Rec.views[k].err = ""
                  /\ [j \in 1..Len(Rec.views[k].ents) |-> [id |-> Rec.views[k].ents[j].id, size |-> Rec.views[k].ents[j].size]] = views'[k].ents
                  /\ \A j \in 1..Len(Rec.views[k].ents) : Rec.views[k].ents[j].ok))
\* segmentation detail (drift only)
DetailMatches(st) ==
    /\ {st.bnds[k] : k \in 1..Len(st.bnds)} = bnds'
    /\ st.synced = synced'
    /\ \A k \in 1..Len(st.canLTE) : st.canLTE[k] = SetMax({b \in bnds' : b <= prev' + k - 1 \/ b = prev'})

ImgOf(im) == [opened |-> im.state.opened, prev |-> im.state.prev, last |-> im.state.last, ents |-> im.state.ents]
BadImages == {k \in 1..Len(Rec.images) : ~RecoverOK(ImgOf(Rec.images[k]), O, Snapshot, [prev |-> prev', ents |-> ents', synced |-> synced', bnds |-> bnds'])}

SpecOp ==
    IF O.op = "append" THEN DoAppend(O.size)
    ELSE IF O.op = "commit" THEN DoCommit
    ELSE IF O.op = "commitN" THEN DoCommitN(O.i)
    ELSE IF O.op = "removeLTE" THEN DoRemoveLTE(O.i)
    ELSE IF O.op = "removeGTE" THEN DoRemoveGTE(IF "i" \in DOMAIN O THEN O.i ELSE 0)
    ELSE IF O.op = "reset" THEN DoReset(IF "i" \in DOMAIN O THEN O.i ELSE 0)
    ELSE IF O.op = "reopen" THEN DoReopen
    ELSE IF O.op = "crashReopen" THEN DoCrashReopen
    ELSE IF O.op = "view" THEN DoViewAt(IF "p" \in DOMAIN O THEN O.p ELSE 0, IF "l" \in DOMAIN O THEN O.l ELSE 0)
    ELSE FALSE

ResetVals ==
    /\ prev' = 0 /\ ents' = << >> /\ bnds' = {0} /\ caps' = (0 :> SegSize0) /\ synced' = 0 /\ opt' = SegSize0
    /\ views' = << >> /\ nextId' = 1 /\ nops' = 0 /\ op' = [op |-> "init"] /\ res' = "ok"
    /\ pre' = [prev |-> 0, ents |-> << >>, synced |-> 0, bnds |-> {0}] /\ hist' = << >>

TInit == Init /\ l = 0 /\ skip = FALSE /\ viol = {}

TStart ==
    /\ l < Len(Trace) /\ O.op = "init"
    /\ ResetVals /\ l' = l + 1 /\ skip' = FALSE /\ UNCHANGED viol

TSkip ==
    /\ l < Len(Trace) /\ skip /\ O.op # "init"
    /\ l' = l + 1 /\ UNCHANGED <<lvars, skip, viol>>

TStep ==
    /\ l < Len(Trace) /\ ~skip /\ O.op # "init"
    /\ SpecOp
    /\ l' = l + 1
    /\ LET a == AbstractMatches(Rec.state) /\ ViewsMatch
           d == DetailMatches(Rec.state)
           b == BadImages
       IN /\ skip' = ~(a /\ d)
          /\ viol' = viol \cup (IF a THEN {} ELSE {<<"C13_AbstractSequence", Rec.run, Rec.seq, O.op, "">>})
                          \cup (IF a /\ ~d THEN {<<"DRIFT", Rec.run, Rec.seq, O.op, "">>} ELSE {})
                          \cup {<<"C14_RecoverOK", Rec.run, Rec.seq, Rec.images[k].point, Rec.images[k].model>> : k \in b}

\* the specification cannot take the recorded operation at all (e.g. ids differ): counts as a C13 failure
TStuck ==
    /\ l < Len(Trace) /\ ~skip /\ O.op # "init" /\ ~ENABLED TStep
    /\ l' = l + 1 /\ skip' = TRUE /\ UNCHANGED lvars
    /\ viol' = viol \cup {<<"C13_AbstractSequence", Rec.run, Rec.seq, O.op, "stuck">>}

TNext == TStart \/ TSkip \/ TStep \/ TStuck

Report == (l = Len(Trace)) => PrintT(<<"SEGLOG-RESULT", ToJson(viol), l>>)
=============================================================================
