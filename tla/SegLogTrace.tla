---------------------------- MODULE SegLogTrace ----------------------------
(***************************************************************************)
(* Conformance of the real segmented log with SegLog.tla.                  *)
(* Input: records written by /verif/harness/log (one per executed          *)
(* operation: result, everything observable through the exported API, the  *)
(* crash images taken at every hook point inside the operation).           *)
(* For every record the specification action of that operation is taken    *)
(* with the recorded arguments and the successor state is compared with    *)
(* the observation:                                                        *)
(*  - a difference in what the API exposes (indexes, bytes, multi-entry    *)
(*    reads, contains, CanLTE/front removal, view stability, result) is a  *)
(*    C13 failure of the real log against the abstract sequence;           *)
(*  - a difference in segmentation detail only is reported as DRIFT;       *)
(*  - every crash image must satisfy SegLog!RecoverOK (C14).               *)
(* After a failure the rest of that run is skipped (the next run resets).  *)
(***************************************************************************)
EXTENDS SegLog, Json, IOUtils

Trace == ndJsonDeserialize(IOEnv.VERIF_TRACE)

VARIABLES l, skip, viol
tvars == <<lvars, l, skip, viol>>

Rec == Trace[l + 1]
O == Rec.op

\* (an empty payload cannot carry its id)
NId(id, size) == IF size = 0 THEN 0 ELSE id
ObsEnts(st) == [k \in 1..Len(st.ents) |-> [id |-> NId(st.ents[k].id, st.ents[k].size), size |-> st.ents[k].size]]
AllOK(st) == \A k \in 1..Len(st.ents) : st.ents[k].ok /\ st.ents[k].i = st.prev + k

\* what the exported API exposes (C13)
AbstractMatches(st) ==
    /\ st.prev = prev' /\ st.last = prev' + Len(ents') /\ st.count = Len(ents')
    /\ AllOK(st) /\ ObsEnts(st) = [k \in 1..Len(ents') |-> [id |-> NId(ents'[k].id, ents'[k].size), size |-> ents'[k].size]]
    /\ st.getNOK /\ st.containsOK
    /\ Len(st.canLTE) = Len(ents') + 1
    /\ \A k \in 1..Len(st.canLTE) : st.canLTE[k] <= prev' + k - 1 /\ st.canLTE[k] >= prev'
    /\ Rec.res = res'
ViewsMatch ==
    \A k \in 1..Len(views') :
        k <= Len(Rec.views) /\
        (views'[k].live =>
            /\ Rec.views[k].nil = views'[k].nil
            /\ (~views'[k].nil =>
                  /\ Rec.views[k].err = ""
                  /\ [j \in 1..Len(Rec.views[k].ents) |-> [id |-> NId(Rec.views[k].ents[j].id, Rec.views[k].ents[j].size), size |-> Rec.views[k].ents[j].size]]
                       = [j \in 1..Len(views'[k].ents) |-> [id |-> NId(views'[k].ents[j].id, views'[k].ents[j].size), size |-> views'[k].ents[j].size]]
                  /\ \A j \in 1..Len(Rec.views[k].ents) : Rec.views[k].ents[j].ok))
\* segmentation detail (drift only)
DetailMatches(st) ==
    /\ {st.bnds[k] : k \in 1..Len(st.bnds)} = bnds'
    /\ st.synced = synced'
    /\ \A k \in 1..Len(st.canLTE) : st.canLTE[k] = SetMax({b \in bnds' : b <= prev' + k - 1 \/ b = prev'})

ImgOf(im) == [opened |-> im.state.opened, prev |-> im.state.prev, last |-> im.state.last, ents |-> im.state.ents]
BadImages == {k \in 1..Len(Rec.images) : ~RecoverOK(ImgOf(Rec.images[k]), O, Snapshot, [prev |-> prev', ents |-> ents', synced |-> synced', bnds |-> bnds'])}

\* (zero-valued arguments are omitted from the JSON records)
Arg(name) == IF name \in DOMAIN O THEN O[name] ELSE 0
SpecOp ==
    IF O.op = "append" THEN DoAppend(Arg("size"))
    ELSE IF O.op = "commit" THEN DoCommit
    ELSE IF O.op = "commitN" THEN DoCommitN(Arg("i"))
    ELSE IF O.op = "removeLTE" THEN DoRemoveLTE(Arg("i"))
    ELSE IF O.op = "removeGTE" THEN DoRemoveGTE(Arg("i"))
    ELSE IF O.op = "reset" THEN DoReset(Arg("i"))
    ELSE IF O.op = "reopen" THEN DoReopen
    ELSE IF O.op = "crashReopen" THEN DoCrashReopen
    ELSE IF O.op = "view" THEN DoViewAt(Arg("p"), Arg("l"))
    ELSE FALSE

ResetVals ==
    /\ prev' = 0 /\ ents' = << >> /\ bnds' = {0} /\ caps' = (0 :> SegSize0) /\ synced' = 0 /\ opt' = SegSize0
    /\ views' = << >> /\ nextId' = 1 /\ nops' = 0 /\ op' = [op |-> "init"] /\ res' = "ok"
    /\ pre' = [prev |-> 0, ents |-> << >>, synced |-> 0, bnds |-> {0}] /\ hist' = << >>

TInit == Init /\ l = 0 /\ skip = "no" /\ viol = {}

TStart ==
    /\ l < Len(Trace) /\ O.op = "init"
    /\ skip # "resync" /\ ResetVals /\ l' = l + 1 /\ skip' = "no" /\ UNCHANGED viol

TSkip ==
    /\ l < Len(Trace) /\ skip = "run" /\ O.op # "init"
    /\ l' = l + 1 /\ UNCHANGED <<lvars, skip, viol>>

\* after a difference in segmentation detail only: adopt the observed detail and go on, so that the
\* abstract consequences of the deviation (if any) are still judged
TResync ==
    /\ skip = "resync"
    /\ LET st == Trace[l].state
           nb == {st.bnds[k] : k \in 1..Len(st.bnds)}
       IN /\ bnds' = nb /\ synced' = st.synced
          /\ caps' = [b \in nb |-> IF b \in DOMAIN caps THEN caps[b] ELSE opt]
    /\ skip' = "no"
    /\ UNCHANGED <<prev, ents, opt, views, nextId, nops, op, res, pre, hist, l, viol>>

TStep ==
    /\ l < Len(Trace) /\ skip = "no" /\ O.op # "init"
    /\ SpecOp
    /\ l' = l + 1
    /\ LET a == AbstractMatches(Rec.state) /\ ViewsMatch
           d == DetailMatches(Rec.state)
           b == BadImages
       IN /\ skip' = IF ~a THEN "run" ELSE IF ~d THEN "resync" ELSE "no"
          /\ viol' = viol \cup (IF a THEN {} ELSE {<<"C13_AbstractSequence", Rec.run, Rec.seq, O.op, "">>})
                          \cup (IF a /\ ~d THEN {<<"DRIFT", Rec.run, Rec.seq, O.op, "">>} ELSE {})
                          \cup {<<"C14_RecoverOK", Rec.run, Rec.seq, Rec.images[k].point, Rec.images[k].model>> : k \in b}

\* the specification cannot take the recorded operation at all (e.g. ids differ): counts as a C13 failure
TStuck ==
    /\ l < Len(Trace) /\ skip = "no" /\ O.op # "init" /\ ~ENABLED TStep
    /\ l' = l + 1 /\ skip' = "run" /\ UNCHANGED lvars
    /\ viol' = viol \cup {<<"C13_AbstractSequence", Rec.run, Rec.seq, O.op, "stuck">>}

DebugAt == IF "VERIF_DEBUG_AT" \in DOMAIN IOEnv THEN atoi(IOEnv.VERIF_DEBUG_AT) ELSE 0
DebugPrint == (l = DebugAt /\ DebugAt > 0) => PrintT(<<"SPEC-STATE", ToJson([prev |-> prev, ents |-> ents, bnds |-> bnds, synced |-> synced, opt |-> opt, res |-> res, views |-> views])>>)

TNext == TStart \/ TSkip \/ TResync \/ TStep \/ TStuck

Report == (l = Len(Trace)) => PrintT(<<"SEGLOG-RESULT", ToJson(viol), l>>)
=============================================================================
