---------------------------- MODULE IdentitySim ----------------------------
(* Operation-sequence export for the identity harness (-simulate). *)
EXTENDS Identity, Json
Dump == (nops = MaxOps) => PrintT(<<"OPS", ToJson(hist)>>)
=============================================================================
