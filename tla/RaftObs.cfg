CONSTANTS None = 0
INIT Init
NEXT Next
INVARIANT Report
