----------------------------- MODULE RaftProps -----------------------------
(***************************************************************************)
(* Property predicates and ghost ledgers for santhosh-tekuri/raft.         *)
(*                                                                         *)
(* Constant-level module (no variables): every operator takes the cluster  *)
(* state as an argument, so that the SAME operators are evaluated          *)
(*   (M) on states of the specification  (Raft.tla, exhaustive / simulate) *)
(*   (O) on states recorded from the real code (RaftObs.tla)               *)
(*   (T) during trace validation          (RaftTrace.tla)                  *)
(*                                                                         *)
(* Cluster state  ns : [Node -> node record]; the fields used here:        *)
(*   up, inc, term, vote, dterm, dvote, state ("F","C","L","D"), leader,   *)
(*   commit, logPrev, log (Seq of entries [t, y, v, c]), synced,           *)
(*   snapIdx, snapTerm, snapCfg, cfgC, cfgL ([index, term, nodes]),        *)
(*   fsmIdx, fsmCmds, died, ldr ([on, start, ...])                         *)
(* An entry is [t |-> term, y |-> "nop"|"upd"|"cfg", v |-> cmd id,         *)
(*              c |-> nodes function (id :> [voter, action]) or << >>]     *)
(* Event ev: record describing the step just taken (same shape in the      *)
(* specification and in the harness records).                              *)
(***************************************************************************)
EXTENDS Integers, Sequences, FiniteSets, TLC

CONSTANT None,          \* "no node" (0 in the implementation)
         TrackClients   \* maintain the client ledger (C07); FALSE keeps it out of the state of models that do not need it

Max(a, b) == IF a >= b THEN a ELSE b
Min(a, b) == IF a <= b THEN a ELSE b
SetMax(S) == CHOOSE x \in S : \A y \in S : y <= x

Last(s)        == s.logPrev + Len(s.log)
HasIdx(s, i)   == i > s.logPrev /\ i <= Last(s)
EntryAt(s, i)  == s.log[i - s.logPrev]
TermAt(s, i)   == IF i = 0 THEN 0
                  ELSE IF HasIdx(s, i) THEN EntryAt(s, i).t
                  ELSE IF i = s.snapIdx THEN s.snapTerm ELSE -1
LastTerm(s)    == IF Len(s.log) > 0 THEN s.log[Len(s.log)].t ELSE s.snapTerm

Voters(nodes)    == {i \in DOMAIN nodes : nodes[i].voter}
IsVoter(cfg, i)  == i \in DOMAIN cfg.nodes /\ cfg.nodes[i].voter
NumVoters(cfg)   == Cardinality(Voters(cfg.nodes))
Quorum(cfg)      == NumVoters(cfg) \div 2 + 1

\* what survives a process kill: the flushed prefix
DurableHas(s, i, e) == HasIdx(s, i) /\ i <= s.synced /\ EntryAt(s, i) = e

\* index of the newest configuration entry in the log (0 if none)
CfgIdxs(s) == {i \in (s.logPrev + 1)..Last(s) : EntryAt(s, i).y = "cfg"}
NewestCfgIdx(s) == IF CfgIdxs(s) = {} THEN 0 ELSE SetMax(CfgIdxs(s))

--------------------------------------------------------------------------
(* Ghost ledgers                                                           *)
(*  elected   : set of <<term, node>>  -- node was observed Leader in term  *)
(*  grants    : set of <<voter, term, candidate>> -- a reply said success   *)
(*              (or the node voted for itself when starting an election)   *)
(*  committed : Seq of [e, ct, dur, known]; entry i = the entry first      *)
(*              covered by some commit index, the term of the node that    *)
(*              committed it, and whether a majority of the voters in      *)
(*              force then held it durably (C06)                           *)
(*  maxTerm   : node -> highest term the node ever reported                *)
(*  acks      : set of [val, pos] -- updates acknowledged to clients        *)
(*  bad       : set of strings   -- action-level violations seen so far     *)

GhostInit(N) == [elected |-> {}, grants |-> {}, committed |-> << >>,
                 maxTerm |-> [n \in N |-> 0], acks |-> {}, bad |-> {}, acked |-> [n \in N |-> 0],
                 \* client ledger (C07): logical clock, submitted updates, completed updates, reads/barriers awaiting an answer
                 clock |-> 0, subs |-> {}, upd |-> {}, reads |-> {},
                 \* <<node, term>>: the election of that term on that node was started by a timeout-now request of the leader
                 perm |-> {}]

IsGrantEv(ev) == /\ "kind" \in DOMAIN ev /\ ev.kind = "voteReq"
                 /\ "result" \in DOMAIN ev /\ ev.result = "success"

SelfVotes(ns, T) == {<<n, ns[n].term, n>> : n \in {m \in T : ns[m].up /\ ns[m].state = "C" /\ ns[m].vote = m}}

\* the commit index node n reached in this step (a node that stopped in the very step that committed - a leader
\* removing itself - is known through its commit decision, observed as a `commit` act)
CommitActIdx(ev, n) == LET S == {a.index : a \in {b \in (IF "acts" \in DOMAIN ev THEN ev.acts ELSE {}) : b.kind = "commit" /\ b.n = n}}
                       IN IF S = {} THEN 0 ELSE SetMax(S)
CommitOf(ns, ev, n) == IF ns[n].up THEN ns[n].commit ELSE CommitActIdx(ev, n)
\* the node (if any) whose commit index now exceeds the ledger
Committers(gh, ns, ev, T) == {n \in T : CommitOf(ns, ev, n) > Len(gh.committed)}

DurMajority(ns, vs, i, e) ==
    LET holders == {v \in vs : v \in DOMAIN ns /\ DurableHas(ns[v], i, e)}
    IN 2 * Cardinality(holders) > Cardinality(vs)

\* C06 is judged at the commit DECISION: the leader's "commit" act carries the voters of the configuration in
\* force at that instant (a later configuration appended in the same step does not count)
CommitActs(ev, n) == {a \in (IF "acts" \in DOMAIN ev THEN ev.acts ELSE {}) : a.kind = "commit" /\ a.n = n}
VotersAtCommit(ns, ev, n, i) ==
    LET cover == {a \in CommitActs(ev, n) : a.index >= i}
    IN IF cover = {} THEN Voters(ns[n].cfgL.nodes)
       ELSE (CHOOSE a \in cover : \A b \in cover : a.index <= b.index).voters

LedgerItem(ns, ev, n, i) ==
    IF HasIdx(ns[n], i)
    THEN [e |-> EntryAt(ns[n], i), ct |-> ns[n].term, known |-> TRUE,
          dur |-> DurMajority(ns, VotersAtCommit(ns, ev, n, i), i, EntryAt(ns[n], i)), by |-> n]
    ELSE [e |-> [t |-> 0, y |-> "?", v |-> 0, c |-> << >>], ct |-> ns[n].term, known |-> FALSE, dur |-> TRUE, by |-> n]

ExtendCommitted(gh, ns, ev, T) ==
    IF Committers(gh, ns, ev, T) = {} THEN gh.committed
    ELSE LET n == CHOOSE m \in Committers(gh, ns, ev, T) : \A k \in Committers(gh, ns, ev, T) : CommitOf(ns, ev, k) <= CommitOf(ns, ev, m)
             from == Len(gh.committed) + 1
         IN gh.committed \o [k \in 1..(CommitOf(ns, ev, n) - Len(gh.committed)) |-> LedgerItem(ns, ev, n, from + k - 1)]

\* action-level checks, evaluated on (before, after, ev)
SameInc(b, a) == b.up /\ a.up /\ b.inc = a.inc

CommittedStableStep(gh, before, after, T) ==
    \A n \in T : SameInc(before[n], after[n]) =>
        \A i \in 1..Len(gh.committed) :
            (gh.committed[i].known /\ HasIdx(before[n], i) /\ EntryAt(before[n], i) = gh.committed[i].e)
              => \/ (HasIdx(after[n], i) /\ EntryAt(after[n], i) = gh.committed[i].e)
                 \/ (i <= after[n].logPrev /\ i <= after[n].snapIdx)

LeaderAppendOnlyStep(before, after, T) ==
    \A n \in T :
        (SameInc(before[n], after[n]) /\ before[n].state = "L" /\ after[n].state = "L" /\ before[n].term = after[n].term)
          => \A i \in (after[n].logPrev + 1)..Last(before[n]) :
                HasIdx(before[n], i) => (HasIdx(after[n], i) /\ EntryAt(after[n], i) = EntryAt(before[n], i))

MonotoneStep(before, after, T) ==
    \A n \in T : SameInc(before[n], after[n]) =>
        /\ after[n].term >= before[n].term
        /\ after[n].commit >= before[n].commit
        /\ after[n].fsmIdx >= before[n].fsmIdx
        /\ after[n].snapIdx >= before[n].snapIdx

TermNeverBackStep(gh, after, T) ==
    \A n \in T : after[n].up => after[n].term >= gh.maxTerm[n]

GrantDurableStep(after, ev) ==
    IsGrantEv(ev) => (after[ev.n].dterm = ev.term /\ after[ev.n].dvote = ev.from)

\* C17(a): a vote request without transfer permission, from somebody other than the
\* known leader, neither wins the vote nor changes the voter's term
LeaderStickinessStep(gh, before, after, ev) ==
    ("kind" \in DOMAIN ev /\ ev.kind = "voteReq" /\ "result" \in DOMAIN ev
       \* the transfer flag counts only for the election the leader's timeout-now request started
       /\ (~ev.transfer \/ <<ev.from, ev.term>> \notin gh.perm)
       /\ before[ev.n].up /\ before[ev.n].leader # None /\ before[ev.n].leader # ev.from)
      => (ev.result # "success" /\ after[ev.n].term = before[ev.n].term /\ after[ev.n].vote = before[ev.n].vote)

\* ---- membership (C08, C11): `acts` = what the leader did inside this step, observed at the instant it did it
Acts(ev) == IF "acts" \in DOMAIN ev THEN ev.acts ELSE {}
\* a leader introduces a configuration only when the previous one is committed and it has committed an entry of its own term
ConfigOnlyWhenSafeStep(ev) ==
    \A a \in Acts(ev) : a.kind = "cfgChanged" => (a.prev <= a.commit /\ a.commit >= a.start)
\* a non-voter is promoted only after it caught up in a completed round
PromoteAfterRoundStep(ev) ==
    \A a \in Acts(ev) : (a.kind = "action" /\ a.action = "promote") => (a.rdone /\ a.match >= a.rlast)
\* a removed node shuts itself down only after its removal is committed
StopOnlyWhenRemovedStep(ev) ==
    \A a \in Acts(ev) : a.kind = "stopped" => (a.commit >= a.cfgIndex /\ ~a.member)
\* only voters (of their own latest configuration) campaign or become leader
OnlyVotersCampaignStep(before, after, T) ==
    \A n \in T :
        (after[n].up /\ before[n].up /\ after[n].state = "C" /\ (before[n].state # "C" \/ after[n].term > before[n].term))
            => IsVoter(after[n].cfgL, n)
OnlyVotersLeadStep(before, after, T) ==
    \A n \in T :
        (after[n].up /\ before[n].up /\ after[n].state = "L" /\ before[n].state # "L") => IsVoter(before[n].cfgL, n)

\* a candidate counts only votes of voters of its own latest configuration
OnlyVotersVoteStep(before, ev) ==
    ("kind" \in DOMAIN ev /\ ev.kind = "voteResp" /\ "result" \in DOMAIN ev /\ ev.result = "success"
       /\ "current" \in DOMAIN ev /\ ev.current /\ before[ev.n].up)
      => IsVoter(before[ev.n].cfgL, ev.from)

\* ---- C10: what a node acknowledged as stored (success reply to an append whose last index covers it)
IsAppendAck(ev) == "kind" \in DOMAIN ev /\ ev.kind = "appendReq" /\ "result" \in DOMAIN ev /\ ev.result = "success" /\ "req" \in DOMAIN ev
AckedAfter(gh, before, after, ev, n) ==
    LET a0 == gh.acked[n]
        a1 == IF IsAppendAck(ev) /\ ev.j = n THEN Max(a0, ev.req.prev + ev.req.n) ELSE a0
        \* a running node may legitimately truncate acknowledged (uncommitted) entries on a conflict, or replace its log by a snapshot
        \* a node killed INSIDE the append handler (crash point after the truncation of a conflicting suffix): what was cut
        \* above the request's prevLogIndex was cut on the leader's demand, not lost
        cutInHandler == before[n].up /\ ~after[n].up /\ "kind" \in DOMAIN ev /\ ev.kind \in {"appendReq", "snapReq"}
                          /\ "j" \in DOMAIN ev /\ ev.j = n /\ "req" \in DOMAIN ev
    IN IF SameInc(before[n], after[n]) THEN Min(a1, Max(Last(after[n]), after[n].snapIdx))
       ELSE IF cutInHandler THEN Min(a1, Max(Max(Last(after[n]), after[n].snapIdx), ev.req.prev))
       ELSE a1
\* restart after a crash: starts, keeps what it acknowledged, log contiguous with the snapshot, vote not forgotten
RestartOKStep(gh, before, after, ev) ==
    ("kind" \in DOMAIN ev /\ ev.kind = "restart") =>
        /\ ev.ok
        /\ Last(after[ev.n]) >= gh.acked[ev.n]
        /\ after[ev.n].logPrev <= after[ev.n].snapIdx /\ after[ev.n].snapIdx <= Last(after[ev.n])
        /\ after[ev.n].term >= gh.maxTerm[ev.n]
        /\ \A g \in gh.grants : (g[1] = ev.n /\ g[2] = after[ev.n].term) => after[ev.n].vote = g[3]

\* ---- leadership transfer (C16). `done` = tasks completed in this step as their submitters see them: [n, op, res]
DoneOf(ev) == IF "done" \in DOMAIN ev THEN ev.done ELSE {}
\* (the leader bookkeeping has one shape in the specification and another in the harness projection)
XferOn(s)     == s.up /\ s.ldr.on /\ (IF "xferTerm" \in DOMAIN s.ldr THEN s.ldr.xfer ELSE s.ldr.xfer.on)
XferTermOf(s) == IF "xferTerm" \in DOMAIN s.ldr THEN s.ldr.xferTerm ELSE s.ldr.xfer.term
\* success is reported only once the old leader has stepped down in favour of a higher term
TransferSuccessStep(before, after, ev) ==
    \A d \in DoneOf(ev) : (d.op = "transfer" /\ d.res = "ok") =>
        LET b == before[d.n]
            a == after[d.n]
        IN XferOn(b) /\ a.term > XferTermOf(b) /\ ~(a.up /\ a.state = "L" /\ a.term = XferTermOf(b))
\* the designated successor is a voter that holds every entry the leader has accepted
TransferTargetStep(ev) ==
    \A a \in Acts(ev) : a.kind = "xferTarget" => (a.voter /\ a.match = a.last)
\* while a transfer is in progress the leader accepts no client command and no membership change
NoEntriesDuringTransferStep(before, after, T) ==
    \A n \in T : (SameInc(before[n], after[n]) /\ XferOn(before[n]) /\ XferOn(after[n])
                     /\ before[n].term = after[n].term /\ after[n].state = "L")
                  => Last(after[n]) = Last(before[n])

\* ---- client-visible semantics (C07)
\* a client submission is one step: ev.kind = "client" with op / val / task (the harness lists them under ev.ops)
IsClientEv(ev) == "kind" \in DOMAIN ev /\ ev.kind = "client"
EvOp(ev)   == IF "ops" \in DOMAIN ev THEN ev.ops[1].op ELSE IF "op" \in DOMAIN ev THEN ev.op ELSE "update"
EvVal(ev)  == IF "ops" \in DOMAIN ev THEN ev.ops[1].val ELSE ev.val
EvTask(ev) == IF "ops" \in DOMAIN ev THEN ev.ops[1].task ELSE IF "task" \in DOMAIN ev THEN ev.task ELSE ev.val
Range(f) == {f[i] : i \in DOMAIN f}
PosIn(f, v) == CHOOSE i \in DOMAIN f : f[i] = v
\* updates this leader itself accepted (appended in its current term) and still has in its log
OwnTermUpdates(s) == {s.log[k].v : k \in {j \in DOMAIN s.log : s.log[j].y = "upd" /\ s.log[j].t = s.term}}
ClientLedger(gh, after, ev) ==
    IF ~TrackClients THEN [clock |-> gh.clock, subs |-> gh.subs, reads |-> gh.reads, upd |-> gh.upd] ELSE
    \* the clock ticks only at client events (submissions, completions of updates)
    LET now   == IF IsClientEv(ev) \/ \E x \in DoneOf(ev) : x.op = "update" THEN gh.clock + 1 ELSE gh.clock
        subs1 == IF IsClientEv(ev) /\ EvOp(ev) = "update" THEN gh.subs \cup {[val |-> EvVal(ev), n |-> ev.n, at |-> now]} ELSE gh.subs
        reads1 == IF IsClientEv(ev) /\ EvOp(ev) \in {"read", "barrier"} /\ ev.state = "L" /\ after[ev.n].up
                  THEN gh.reads \cup {[n |-> ev.n, task |-> EvTask(ev), need |-> OwnTermUpdates(after[ev.n])]} ELSE gh.reads
        upd1  == gh.upd \cup {[val |-> d.val, res |-> d.res, pos |-> d.pos, at |-> now, n |-> d.n] : d \in {x \in DoneOf(ev) : x.op = "update"}}
    IN [clock |-> now, subs |-> subs1, reads |-> reads1, upd |-> upd1]
\* a completed update is in the state machine of the node that completed it, at the reported position
UpdateAtPosStep(after, ev) ==
    \A d \in DoneOf(ev) : (d.op = "update" /\ d.res = "ok" /\ after[d.n].up) =>
        (d.pos >= 1 /\ d.pos <= Len(after[d.n].fsmCmds) /\ after[d.n].fsmCmds[d.pos] = d.val)
\* a read / barrier answered by a leader reflects every update that leader had accepted before it
ReadsReflectStep(gh, after, ev) ==
    \A d \in DoneOf(ev) : (d.op \in {"read", "barrier"} /\ d.res = "ok") =>
        \A r \in ClientLedger(gh, after, ev).reads : (r.n = d.n /\ r.task = d.task) =>
            IF d.op = "read" THEN r.need \subseteq Range(d.rd)
            ELSE (after[d.n].up => r.need \subseteq Range(after[d.n].fsmCmds))
\* no read (dirty reads on any node included) exposes an update that is not committed: what it returns is a prefix of
\* the committed updates
ReadsCommittedStep(gh1, ev) ==
    \A d \in DoneOf(ev) : (d.op \in {"read", "dirty"} /\ d.res = "ok") =>
        LET ups == SelectSeq(gh1.committed, LAMBDA c : c.e.y = "upd")
        IN (\A i \in 1..Len(gh1.committed) : gh1.committed[i].known) =>
             (Len(d.rd) <= Len(ups) /\ \A i \in 1..Len(d.rd) : d.rd[i] = ups[i].e.v)

\* ---- end of a recorded run: every node was shut down; tasks and (after a fair, fault-free continuation) convergence
IsFinal(ev) == "kind" \in DOMAIN ev /\ ev.kind = "final"
AllTasksCompleteStep(ev) == IsFinal(ev) => Len(ev.pending) = 0
\* ... and exactly once: the outcome a task completed with is still its outcome at the end of the run
TaskCompletesOnceStep(ev) == (IsFinal(ev) /\ "changed" \in DOMAIN ev) => Len(ev.changed) = 0
ConvergesStep(ev) == ("kind" \in DOMAIN ev /\ ev.kind = "fairCheck") => ev.converged

StepViolations(gh, before, after, ev, T) ==
       (IF CommittedStableStep(gh, before, after, T) THEN {} ELSE {"C02_CommittedStable"})
  \cup (IF LeaderAppendOnlyStep(before, after, T) THEN {} ELSE {"C04_LeaderAppendOnly"})
  \cup (IF MonotoneStep(before, after, T) THEN {} ELSE {"C19_Monotone"})
  \cup (IF TermNeverBackStep(gh, after, T) THEN {} ELSE {"C05_TermMonotone"})
  \cup (IF GrantDurableStep(after, ev) THEN {} ELSE {"C05_GrantDurable"})
  \cup (IF LeaderStickinessStep(gh, before, after, ev) THEN {} ELSE {"C17_LeaderStickiness"})
  \cup (IF RestartOKStep(gh, before, after, ev) THEN {} ELSE {"C10_RestartOK"})
  \cup (IF AllTasksCompleteStep(ev) THEN {} ELSE {"C15_AllTasksComplete"})
  \cup (IF TaskCompletesOnceStep(ev) THEN {} ELSE {"C15_TaskCompletesOnce"})
  \cup (IF ConvergesStep(ev) THEN {} ELSE {"C17_Converges"})
  \cup (IF UpdateAtPosStep(after, ev) THEN {} ELSE {"C07_UpdateAtReportedPosition"})
  \cup (IF ReadsReflectStep(gh, after, ev) THEN {} ELSE {"C07_ReadsReflectAccepted"})
  \cup (IF TransferSuccessStep(before, after, ev) THEN {} ELSE {"C16_SuccessMeansSteppedDown"})
  \cup (IF TransferTargetStep(ev) THEN {} ELSE {"C16_TargetEligible"})
  \cup (IF NoEntriesDuringTransferStep(before, after, T) THEN {} ELSE {"C16_NoNewEntriesDuringTransfer"})
  \cup (IF ConfigOnlyWhenSafeStep(ev) THEN {} ELSE {"C08_ConfigOnlyWhenSafe"})
  \cup (IF PromoteAfterRoundStep(ev) THEN {} ELSE {"C11_PromoteAfterRound"})
  \cup (IF StopOnlyWhenRemovedStep(ev) THEN {} ELSE {"C11_StopOnlyWhenRemoved"})
  \cup (IF OnlyVotersCampaignStep(before, after, T) THEN {} ELSE {"C11_OnlyVotersCampaign"})
  \cup (IF OnlyVotersLeadStep(before, after, T) THEN {} ELSE {"C11_OnlyVotersLead"})
  \cup (IF OnlyVotersVoteStep(before, ev) THEN {} ELSE {"C11_OnlyVotersVote"})

\* T = the nodes touched by this step (pass DOMAIN after when unknown)
GhostStep(gh, before, after, ev, T) ==
    [elected   |-> gh.elected \cup {<<after[n].term, n>> : n \in {m \in T : after[m].up /\ after[m].state = "L"}},
     grants    |-> gh.grants \cup SelfVotes(after, T)
                     \cup (IF IsGrantEv(ev) THEN {<<ev.n, ev.term, ev.from>>} ELSE {}),
     committed |-> ExtendCommitted(gh, after, ev, T),
     maxTerm   |-> [n \in DOMAIN gh.maxTerm |-> IF n \in T /\ after[n].up THEN Max(gh.maxTerm[n], after[n].term) ELSE gh.maxTerm[n]],
     acks      |-> gh.acks,
     acked     |-> [n \in DOMAIN gh.acked |-> IF n \in T \/ IsAppendAck(ev) THEN AckedAfter(gh, before, after, ev, n) ELSE gh.acked[n]],
     perm      |-> IF "kind" \in DOMAIN ev /\ ev.kind = "timeoutNowReq" /\ "result" \in DOMAIN ev /\ ev.result = "success"
                          /\ after[ev.n].up /\ after[ev.n].state = "C"
                       THEN gh.perm \cup {<<ev.n, after[ev.n].term>>}
                       \* further election rounds of the same candidacy keep the permission (candidate.onTimeout)
                       ELSE IF "kind" \in DOMAIN ev /\ ev.kind = "timeout" /\ "state" \in DOMAIN ev /\ ev.state = "C"
                               /\ before[ev.n].up /\ after[ev.n].up /\ after[ev.n].state = "C" /\ <<ev.n, before[ev.n].term>> \in gh.perm
                       THEN gh.perm \cup {<<ev.n, after[ev.n].term>>}
                       ELSE gh.perm,
     clock     |-> ClientLedger(gh, after, ev).clock, subs |-> ClientLedger(gh, after, ev).subs,
     upd       |-> ClientLedger(gh, after, ev).upd,
     reads     |-> ClientLedger(gh, after, ev).reads,
     bad       |-> gh.bad \cup StepViolations(gh, before, after, ev, T)
                         \cup (IF DoneOf(ev) = {} \/ ReadsCommittedStep([committed |-> ExtendCommitted(gh, after, ev, T)], ev) THEN {} ELSE {"C07_ReadsOnlyCommitted"})]

--------------------------------------------------------------------------
(* State predicates over (gh, ns)                                          *)

\* C01: at most one leader per term
C01_ElectionSafety(gh) == \A p, q \in gh.elected : p[1] = q[1] => p[2] = q[2]

\* C05: at most one candidate per (voter, term)
C05_OneVotePerTerm(gh) == \A g, h \in gh.grants : (g[1] = h[1] /\ g[2] = h[2]) => g[3] = h[3]
C05_TermMonotone(gh)   == "C05_TermMonotone" \notin gh.bad
C05_GrantDurable(gh)   == "C05_GrantDurable" \notin gh.bad

\* C02: nodes agree on committed entries; leaders hold them; never overwritten
C02_CommittedAgree(gh, ns) ==
    \A n \in DOMAIN ns : ns[n].up =>
        \A i \in 1..Min(ns[n].commit, Len(gh.committed)) :
            (gh.committed[i].known /\ HasIdx(ns[n], i)) => EntryAt(ns[n], i) = gh.committed[i].e
C02_LeaderCompleteness(gh, ns) ==
    \A n \in DOMAIN ns : (ns[n].up /\ ns[n].state = "L") =>
        \A i \in 1..Len(gh.committed) :
            (gh.committed[i].known /\ gh.committed[i].ct <= ns[n].term)
               => \/ (HasIdx(ns[n], i) /\ EntryAt(ns[n], i) = gh.committed[i].e)
                  \/ i <= ns[n].snapIdx
C02_CommittedStable(gh) == "C02_CommittedStable" \notin gh.bad

\* C04: log matching on the logs that exist now (durable logs of down nodes included)
C04_LogMatching(ns) ==
    \A a, b \in DOMAIN ns :
        \A i \in (Max(ns[a].logPrev, ns[b].logPrev) + 1)..Min(Last(ns[a]), Last(ns[b])) :
            EntryAt(ns[a], i).t = EntryAt(ns[b], i).t =>
                \A k \in (Max(ns[a].logPrev, ns[b].logPrev) + 1)..i : EntryAt(ns[a], k) = EntryAt(ns[b], k)
C04_LeaderAppendOnly(gh) == "C04_LeaderAppendOnly" \notin gh.bad

\* C06: every committed entry was durable on a majority of voters when committed
C06_MajorityDurable(gh) == \A i \in 1..Len(gh.committed) : gh.committed[i].dur

\* C03: state machines hold exactly the committed updates, in order
UpdatesUpTo(gh, k) == LET idx == {i \in 1..Min(k, Len(gh.committed)) : gh.committed[i].e.y = "upd"}
                      IN  idx
RECURSIVE CmdSeq(_, _, _)
CmdSeq(gh, i, k) == IF i > k THEN << >>
                    ELSE (IF gh.committed[i].e.y = "upd" THEN <<gh.committed[i].e.v>> ELSE << >>) \o CmdSeq(gh, i + 1, k)
AllKnown(gh, k) == \A i \in 1..k : gh.committed[i].known
C03_FsmIsCommittedPrefix(gh, ns) ==
    \A n \in DOMAIN ns : (ns[n].up /\ ns[n].fsmIdx <= Len(gh.committed) /\ AllKnown(gh, ns[n].fsmIdx)) =>
        ns[n].fsmCmds = CmdSeq(gh, 1, ns[n].fsmIdx)
C03_FsmNotAhead(gh, ns) == \A n \in DOMAIN ns : ns[n].up => ns[n].fsmIdx <= Len(gh.committed)

\* C19: a node's observable state is ordered
C19_Ordered(ns) ==
    \A n \in DOMAIN ns : ns[n].up =>
        /\ ns[n].fsmIdx <= ns[n].commit
        /\ ns[n].commit <= Last(ns[n])
        /\ ns[n].logPrev <= ns[n].snapIdx
        /\ ns[n].snapIdx <= Last(ns[n])
        /\ ns[n].cfgC.index <= ns[n].cfgL.index
C19_LatestIsNewest(ns) ==
    \A n \in DOMAIN ns : ns[n].up =>
        LET k == NewestCfgIdx(ns[n])
        IN IF k > 0 THEN ns[n].cfgL.index = k /\ ns[n].cfgL.nodes = EntryAt(ns[n], k).c
           ELSE ns[n].cfgL.index = ns[n].snapCfg.index /\ ns[n].cfgL.nodes = ns[n].snapCfg.nodes
C19_Monotone(gh) == "C19_Monotone" \notin gh.bad

\* C08: every configuration entry differs from its predecessor (previous configuration entry of the same log,
\* or the snapshot's configuration) by at most one voter, and keeps a voter
PrevCfgNodes(s, i) == LET before == {k \in CfgIdxs(s) : k < i}
                      IN IF before = {} THEN s.snapCfg.nodes ELSE EntryAt(s, SetMax(before)).c
VoterDelta(a, b) == (Voters(a) \ Voters(b)) \cup (Voters(b) \ Voters(a))
C08_OneVoterDelta(ns) ==
    \A n \in DOMAIN ns : \A i \in CfgIdxs(ns[n]) :
        /\ Voters(EntryAt(ns[n], i).c) # {}
        \* (the predecessor is known only if an earlier entry is still in the log, or the snapshot ends before entry i)
        /\ (i > 1 /\ (CfgIdxs(ns[n]) \cap 1..(i - 1) # {} \/ (ns[n].snapCfg.index > 0 /\ ns[n].snapIdx < i)))
              => Cardinality(VoterDelta(EntryAt(ns[n], i).c, PrevCfgNodes(ns[n], i))) <= 1
C08_ConfigOnlyWhenSafe(gh) == "C08_ConfigOnlyWhenSafe" \notin gh.bad

\* C11: non-voters and removed nodes hold no authority
C11_OnlyVotersCampaign(gh) == "C11_OnlyVotersCampaign" \notin gh.bad
C11_OnlyVotersVote(gh) == "C11_OnlyVotersVote" \notin gh.bad
C11_OnlyVotersLead(gh) == "C11_OnlyVotersLead" \notin gh.bad
C11_PromoteAfterRound(gh) == "C11_PromoteAfterRound" \notin gh.bad
C11_StopOnlyWhenRemoved(gh) == "C11_StopOnlyWhenRemoved" \notin gh.bad
\* a leader that is no voter in its committed latest configuration has stopped leading
C11_DemotedLeaderStepsDown(ns) ==
    \A n \in DOMAIN ns : (ns[n].up /\ ns[n].state = "L" /\ ns[n].cfgC.index = ns[n].cfgL.index) => IsVoter(ns[n].cfgL, n)

\* C09: a snapshot holds exactly the committed updates up to its index; compaction never invalidates what a
\* replication task reads (observed as the death of the process in a replication goroutine)
C09_SnapshotCommitted(gh, ns) ==
    \A n \in DOMAIN ns : ns[n].snapIdx > 0 =>
        /\ ns[n].snapIdx <= Len(gh.committed)
        /\ AllKnown(gh, ns[n].snapIdx) => ns[n].snapCmds = CmdSeq(gh, 1, ns[n].snapIdx)
C09_NoViewInvalidation(ns) == \A n \in DOMAIN ns : ns[n].died # "replication"

\* C12: a snapshot is labelled with the term of its last entry and the membership in force at its index
LedgerCfgIdx(gh, k) == LET S == {i \in 1..Min(k, Len(gh.committed)) : gh.committed[i].e.y = "cfg"} IN IF S = {} THEN 0 ELSE SetMax(S)
C12_LabelOK(gh, ns) ==
    \A n \in DOMAIN ns : (ns[n].snapIdx > 0 /\ ns[n].snapIdx <= Len(gh.committed) /\ AllKnown(gh, ns[n].snapIdx)) =>
        /\ ns[n].snapTerm = gh.committed[ns[n].snapIdx].e.t
        /\ LET c == LedgerCfgIdx(gh, ns[n].snapIdx)
           IN c > 0 => (ns[n].snapCfg.index = c /\ ns[n].snapCfg.nodes = gh.committed[c].e.c)

\* C10: a node restarts consistently after a crash at any point
C10_RestartOK(gh) == "C10_RestartOK" \notin gh.bad

\* C17(a): leader stickiness
\* C07 state predicates over the client ledger
C07_UpdateAtReportedPosition(gh) == "C07_UpdateAtReportedPosition" \notin gh.bad
C07_ReadsReflectAccepted(gh) == "C07_ReadsReflectAccepted" \notin gh.bad
C07_ReadsOnlyCommitted(gh) == "C07_ReadsOnlyCommitted" \notin gh.bad
\* each update takes effect at most once (exactly once if it completed successfully: see UpdateAtReportedPosition)
C07_AtMostOnce(ns) == \A n \in DOMAIN ns : ns[n].up =>
    \A i, j \in DOMAIN ns[n].fsmCmds : ns[n].fsmCmds[i] = ns[n].fsmCmds[j] => i = j
\* an update rejected definitively never takes effect
C07_RejectedNeverApplied(gh, ns) ==
    \A u \in gh.upd : u.res \in {"notLeader", "inProgress"} =>
        \A n \in DOMAIN ns : ns[n].up => u.val \notin Range(ns[n].fsmCmds)
\* an update completed before another was submitted precedes it in every state machine
C07_RealTimeOrder(gh, ns) ==
    \A u \in gh.upd : u.res = "ok" =>
        \A s \in gh.subs : s.at > u.at =>
            \A n \in DOMAIN ns : (ns[n].up /\ s.val \in Range(ns[n].fsmCmds)) =>
                (u.val \in Range(ns[n].fsmCmds) /\ PosIn(ns[n].fsmCmds, u.val) < PosIn(ns[n].fsmCmds, s.val))
C16_SuccessMeansSteppedDown(gh) == "C16_SuccessMeansSteppedDown" \notin gh.bad
C16_TargetEligible(gh) == "C16_TargetEligible" \notin gh.bad
C16_NoNewEntriesDuringTransfer(gh) == "C16_NoNewEntriesDuringTransfer" \notin gh.bad
C17_LeaderStickiness(gh) == "C17_LeaderStickiness" \notin gh.bad

\* C15 (assertion part): no node died of a panic
C15_NoSelfInflictedDeath(ns) == \A n \in DOMAIN ns : ns[n].died = ""

=============================================================================
