----------------------------- MODULE RaftTrace -----------------------------
(***************************************************************************)
(* Trace validation (T): is each behaviour recorded from the REAL code     *)
(* (Layer-1 harness records: stimulus, reply, full projection of every     *)
(* node after each step) a behaviour of Raft.tla?  Each record is matched  *)
(* by the specification action of that critical section, with the logged   *)
(* stimulus as parameters, and the successor state computed by the SPEC    *)
(* must equal the logged projection of the real nodes, field by field.     *)
(* The trace is linear and fully logged, so the search is linear.          *)
(* Acceptance: position l reaches Len(Trace) (read from the search depth). *)
(* A record with ev.kind = "init" starts a new run (all variables reset).  *)
(***************************************************************************)
EXTENDS Raft, Json, IOUtils

Trace == ndJsonDeserialize(IOEnv.VERIF_TRACE)

VARIABLE l
tvars == <<vars, l>>

Rec == Trace[l + 1]
Ev  == Rec.ev

NodesFun(seq) == [i \in {seq[k].id : k \in 1..Len(seq)} |->
                    LET k == CHOOSE k \in 1..Len(seq) : seq[k].id = i
                    IN [voter |-> seq[k].voter, action |-> seq[k].action]]
CfgOf(c) == [index |-> c.index, term |-> c.term, nodes |-> NodesFun(c.nodes)]
EntryOf(e) == [t |-> e.t, y |-> e.y, v |-> e.v, c |-> NodesFun(e.c)]
JNode(rec, n) == rec.nodes[CHOOSE k \in 1..Len(rec.nodes) : rec.nodes[k].id = n]

ReplMatches(r, jr) ==
    /\ r.next = jr.next /\ r.rmatch = jr.rmatch /\ r.match = jr.match /\ r.noContact = jr.noContact
    /\ r.vprev = jr.viewPrev /\ r.vlast = jr.viewLast /\ r.rcommit = jr.rcommit /\ r.voter = jr.voter
    /\ (r.up => r.mode = jr.mode) /\ r.up = (jr.conn # 0) /\ r.failures = jr.failures
    /\ Len(r.reqs) + Len(r.resps) = jr.out
    /\ r.lu.on = (jr.luCh > 0)
    /\ r.round.on = (jr.round > 0)
    /\ r.round.on => (r.round.ord = jr.round /\ r.round.last = jr.roundLast /\ r.round.done = jr.roundDone /\ r.round.stale = jr.roundStale)

LdrMatches(s, j) ==
    /\ s.ldr.on = j.ldr.on
    /\ s.ldr.on =>
        /\ s.ldr.start = j.ldr.start /\ s.ldr.numVoters = j.ldr.numVoters /\ s.ldr.selfVoter = j.ldr.selfVoter
        /\ s.ldr.removeLTE = j.ldr.removeLTE
        /\ Len(s.ldr.neQ) = Len(j.ldr.neQ)
        /\ \A k \in 1..Len(s.ldr.neQ) : s.ldr.neQ[k].i = j.ldr.neQ[k].i /\ s.ldr.neQ[k].y = j.ldr.neQ[k].y
        /\ Len(s.ldr.replQ) = j.ldr.replQ
        /\ s.ldr.xfer.on = j.ldr.xfer
        /\ s.ldr.xfer.on => (/\ s.ldr.xfer.term = j.ldr.xferTerm /\ s.ldr.xfer.target = j.ldr.xferTo
                             /\ s.ldr.xfer.resp = j.ldr.xferResp /\ s.ldr.xfer.nt = j.ldr.xferNt)
        /\ DOMAIN s.ldr.repl = {j.ldr.repls[k].id : k \in 1..Len(j.ldr.repls)}
        /\ \A k \in 1..Len(j.ldr.repls) : ReplMatches(s.ldr.repl[j.ldr.repls[k].id], j.ldr.repls[k])

NodeMatches(s, j) ==
    /\ s.up = j.up /\ s.died = j.died
    /\ s.term = j.term /\ s.vote = j.vote /\ s.dterm = j.disk.term /\ s.dvote = j.disk.vote
    /\ s.logPrev = j.logPrev /\ Len(s.log) = Len(j.log)
    /\ \A k \in 1..Len(s.log) : s.log[k] = EntryOf(j.log[k])
    /\ s.synced = j.synced
    /\ s.snapIdx = j.snap.index /\ s.snapTerm = j.snap.term /\ s.snapCmds = j.snap.cmds
    /\ (s.snapIdx > 0 => s.snapCfg = CfgOf(j.snap.cfg))
    /\ s.bnds = {j.bnds[k] : k \in 1..Len(j.bnds)}
    /\ s.up =>
        /\ s.inc = j.inc
        /\ s.state = j.state /\ s.leader = j.leader /\ s.commit = j.commit
        /\ s.cfgC = CfgOf(j.cfgC) /\ s.cfgL = CfgOf(j.cfgL)
        /\ s.aborted = j.aborted
        /\ (s.state = "C" => (s.votesNeeded = j.votesNeeded /\ s.cndTransfer = j.cndTransfer /\ s.selfVote = (j.respLen > 0)))
        /\ s.fsmIdx = j.fsm.index /\ s.fsmCmds = j.fsm.cmds /\ Len(s.fsmQ) = j.fsm.q
        /\ LdrMatches(s, j)
        /\ s.snapG.pc = j.snapG
        /\ (s.died = "") = (j.died = "")

\* debugging aid: VERIF_DEBUG_AT=k accepts record k without comparing and prints the specification's state after it
DebugAt == IF "VERIF_DEBUG_AT" \in DOMAIN IOEnv THEN atoi(IOEnv.VERIF_DEBUG_AT) ELSE 0
Matches == (l + 1 = DebugAt) \/ \A n \in Node : NodeMatches(node'[n], JNode(Rec, n))
DebugPrint == (l = DebugAt /\ DebugAt > 0) => PrintT(<<"SPEC-STATE", ToJson([node |-> node, ev |-> ev])>>)

ActOf(a) == IF "voters" \in DOMAIN a THEN [a EXCEPT !.voters = {a.voters[k] : k \in 1..Len(a.voters)}] ELSE a
ActsOf(e) == IF "acts" \in DOMAIN e THEN {ActOf(e.acts[k]) : k \in 1..Len(e.acts)} ELSE {}
\* tasks completed in the step: the same (node, operation, result) multiset in the specification and in the real run
RealDone == {LET d == Rec.done[k] IN
             [n |-> d.n, op |-> d.op, res |-> d.err,
              k |-> Cardinality({i \in 1..k : Rec.done[i].n = d.n /\ Rec.done[i].op = d.op /\ Rec.done[i].err = d.err}),
              val |-> IF d.op = "update" THEN d.val ELSE 0,
              pos |-> IF d.op \in {"update", "takeSnapshot"} /\ d.err = "ok" /\ "pos" \in DOMAIN d THEN d.pos ELSE 0,
              rd  |-> IF "read" \in DOMAIN d THEN d.read ELSE << >>]
             : k \in 1..Len(Rec.done)}
DoneKey(d) == [n |-> d.n, op |-> d.op, res |-> d.res, k |-> d.k, val |-> d.val, pos |-> d.pos, rd |-> d.rd]
DoneMatches == {DoneKey(d) : d \in ev'.done} = RealDone
StimRf == IF "rf" \in DOMAIN Rec.stim THEN Rec.stim.rf ELSE TRUE
\* The order in which Go ranges over l.repls in the NEXT step is a prophecy variable of Raft.tla (ordc). It can
\* only matter when that step performs a membership action, which the next record tells; otherwise one fixed
\* order is tried. rfc (round-fast outcome of the next step) is read from the next record's stimulus.
NextNeedsOrd == l + 2 <= Len(Trace) /\ "acts" \in DOMAIN Trace[l + 2].ev
                  /\ \E k \in 1..Len(Trace[l + 2].ev.acts) : Trace[l + 2].ev.acts[k].kind \in {"action", "xferTarget"}
FixedOrd == CHOOSE q \in AllOrds : \A k \in 1..(Len(q) - 1) : q[k] < q[k + 1]
NextRf == IF l + 2 <= Len(Trace) /\ "rf" \in DOMAIN Trace[l + 2].stim THEN Trace[l + 2].stim.rf ELSE TRUE
Prophecy == ordc' \in (IF NextNeedsOrd THEN AllOrds ELSE {FixedOrd}) /\ rfc' = NextRf
Step(A) == l < Len(Trace) /\ Prophecy /\ A /\ l' = l + 1 /\ Matches /\ ((ev'.acts = ActsOf(Ev) /\ DoneMatches) \/ l + 1 = DebugAt)

IsEv(k) == l < Len(Trace) /\ Ev.kind = k
Has(f) == f \in DOMAIN Ev

TReset ==
    /\ IsEv("init")
    /\ Prophecy /\ Reset /\ l' = l + 1
    /\ Matches

TSkipped ==
    /\ l < Len(Trace) /\ (Ev.kind = "skipped" \/ Has("skipped"))
    /\ UNCHANGED <<node, rpcs, orph, gh, ctr, ev, hist>> /\ l' = l + 1
    /\ Prophecy

TTimeout == IsEv("timeout") /\ Step(Timeout(Ev.n))

TVoteReq ==
    /\ (IsEv("voteReq") \/ IsEv("timeoutNowReq"))
    /\ \E m \in rpcs : m.kind = (IF IsEv("voteReq") THEN "vote" ELSE "timeoutNow") /\ m.phase = 0 /\ m.from = Ev.from /\ m.to = Ev.n /\ m.term = Ev.term
          /\ Step(RpcReqX(m, Has("dropped")))
          /\ (Has("result") => (ev'.result = Ev.result /\ ev'.respTerm = Ev.respTerm))

TVoteResp ==
    /\ (IsEv("voteResp") \/ IsEv("timeoutNowResp"))
    /\ IF Has("self") THEN Step(SelfVote(Ev.n))
       ELSE \E m \in rpcs : m.kind = (IF IsEv("voteResp") THEN "vote" ELSE "timeoutNow") /\ m.phase = 1 /\ m.from = Ev.n /\ m.to = Ev.from /\ m.term = Ev.term
              /\ Step(RpcResp(m))

TReplSend == IsEv("replSend") /\ ~Has("skipped") /\ Step(ReplSendX(Ev.i, Ev.j, Has("dialFail")))
                /\ (Has("req") => (Has("req") /\ "req" \in DOMAIN ev' /\ ev'.req = Ev.req))

TAppendReq ==
    /\ (IsEv("appendReq") \/ IsEv("snapReq"))
    /\ \/ /\ Step(AppendReq(Ev.i, Ev.j))
          /\ (Has("result") => (ev'.result = Ev.result /\ ev'.respTerm = Ev.respTerm /\ ev'.respLast = Ev.respLast))
       \/ \E k \in 1..Len(orph) : orph[k].from = Ev.i /\ orph[k].to = Ev.j /\ Step(OrphanReq(k))
            /\ (Has("result") => (ev'.result = Ev.result /\ ev'.respTerm = Ev.respTerm /\ ev'.respLast = Ev.respLast))
       \* a request written on a connection whose server side died is never handled (the specification dropped it at the crash)
       \/ /\ Has("lost") /\ l < Len(Trace) /\ l' = l + 1 /\ Prophecy
          /\ UNCHANGED <<node, rpcs, orph, gh, ctr, ev, hist>>
          /\ \A n \in Node : NodeMatches(node[n], JNode(Rec, n))

TAppendResp == (IsEv("appendResp") \/ IsEv("snapResp")) /\ Step(AppendResp(Ev.i, Ev.j))
TTakeSnap   == IsEv("takeSnapshot") /\ Step(TakeSnapshotOp(Ev.n, Ev.threshold))
TSnapGAsk   == IsEv("snapGAsk") /\ Step(SnapGAsk(Ev.n))
TSnapGStore == IsEv("snapGStore") /\ Step(SnapGStore(Ev.n))
TSnapTaken  == IsEv("snapTaken") /\ Step(SnapshotTaken(Ev.n))
TReplFail   == IsEv("replFail") /\ Step(ReplFail(Ev.i, Ev.j))
TReplPoll   == IsEv("replPoll") /\ Step(ReplPoll(Ev.i, Ev.j))
TLdrUpdates == IsEv("ldrUpdates") /\ Step(LdrUpdates(Ev.n))
TClient     == IsEv("client") /\ Len(Ev.ops) = 1 /\ Step(ClientOp(Ev.n, Ev.ops[1].op, Ev.ops[1].val))
TFsm        == IsEv("fsm") /\ Step(Fsm(Ev.n))
TCrash      == IsEv("crash") /\ Step(Crash(Ev.n))
TRestart    == IsEv("restart") /\ Step(Restart(Ev.n))
TChangeCfg  == IsEv("changeConfig") /\ Step(ChangeConfigOp(Ev.n, NodesFun(Ev.nodes)))
TTransfer   == IsEv("transfer") /\ Step(TransferOp(Ev.n, Ev.target))
TXferTmo    == IsEv("xferTimeout") /\ Step(XferTimeout(Ev.n))
TNewTermTmo == IsEv("newTermTimeout") /\ Step(NewTermTimeout(Ev.n))
TShutdown   == IsEv("shutdown") /\ Step(Shutdown(Ev.n))
TFinal      == (IsEv("final") \/ IsEv("fairCheck")) /\ l' = l + 1 /\ Prophecy /\ UNCHANGED <<node, rpcs, orph, gh, ctr, ev, hist>>
TDisc       == IsEv("disconnected")
                 /\ IF node[Ev.n].leader = Ev.peer THEN Step(Disconnected(Ev.n, Ev.peer))
                    ELSE l' = l + 1 /\ Prophecy /\ UNCHANGED <<node, rpcs, orph, gh, ctr, ev, hist>>   \* no effect unless the peer is the known leader

TInit == Init /\ l = 0 /\ ordc = FixedOrd /\ rfc = TRUE
TNext == \/ TReset \/ TSkipped \/ TTimeout \/ TVoteReq \/ TVoteResp \/ TReplSend \/ TAppendReq \/ TAppendResp
         \/ TReplFail \/ TReplPoll \/ TLdrUpdates \/ TClient \/ TFsm \/ TCrash \/ TRestart \/ TDisc \/ TShutdown \/ TTransfer \/ TXferTmo \/ TNewTermTmo \/ TFinal \/ TChangeCfg \/ TTakeSnap \/ TSnapGAsk \/ TSnapGStore \/ TSnapTaken

\* printed at every state; the last line printed tells how far the trace was accepted
Progress == (l = Len(Trace)) => PrintT(<<"TRACE-ACCEPTED", l>>)
=============================================================================
