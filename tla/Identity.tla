------------------------------ MODULE Identity ------------------------------
(***************************************************************************)
(* Cluster/node identity isolation and storage exclusivity (property C20). *)
(*                                                                         *)
(* Dialers (conn.go connPool) intend to talk to one identity (cid, nid)    *)
(* and learn its address from configurations / resolvers, which may hand   *)
(* out ANY address at any time. Listeners (server.go handleConn +          *)
(* rpc.go replyRPC) have an identity. A connection is usable only after    *)
(* the identity handshake succeeded on it; pooled connections are reused   *)
(* without a new handshake (the listener behind an established connection  *)
(* cannot change). Storage directories: SetIdentity once; Serve holds the  *)
(* directory lock.                                                         *)
(*                                                                         *)
(* Op sequences (hist) are exported with -simulate and executed against    *)
(* the real connPool / server / Serve / SetIdentity; the outcome of every  *)
(* step is compared with `res` and the set `processed` is observed through *)
(* the verif hook rpc.handled.                                             *)
(***************************************************************************)
EXTENDS Integers, Sequences, FiniteSets, TLC

CONSTANTS Ident,    \* identities, e.g. {"c1n1", "c1n2", "c2n1"}
          Addr,     \* addresses
          Dir,      \* storage directories
          MaxOps
None == "none"
NoListen == [id |-> "none", inst |-> 0]

VARIABLES listen,     \* Addr -> [id, inst] or None : who listens there (inst = serving instance number)
          resolve,    \* Ident -> Addr : what the dialer's resolver / configuration says now
          pooled,     \* Ident -> inst or 0 : pooled (handshaken) connection of the dialer for that intent
          dirId,      \* Dir -> Ident or None : identity stored in the directory
          dirLock,    \* Dir -> inst or 0 : instance serving that directory
          insts,      \* inst -> [dir, id, addr, up]
          processed,  \* set of [by, intent] : non-identity requests a listener processed
          nops, op, res, hist

ivars == <<listen, resolve, pooled, dirId, dirLock, insts, processed, nops, op, res, hist>>

Done(o, r) == op' = o /\ res' = r /\ nops' = nops + 1 /\ hist' = Append(hist, o)

Init ==
    /\ listen = [a \in Addr |-> NoListen] /\ resolve \in [Ident -> Addr] /\ pooled = [i \in Ident |-> 0]
    /\ dirId = [d \in Dir |-> None] /\ dirLock = [d \in Dir |-> 0] /\ insts = << >>
    /\ processed = {} /\ nops = 0 /\ op = [op |-> "init", resolve |-> resolve] /\ res = "ok" /\ hist = <<[op |-> "init", resolve |-> resolve]>>

\* storage.go SetIdentity: refuses a different identity once set, and a directory that is being served
SetIdentity(d, id) ==
    /\ IF dirLock[d] # 0 THEN UNCHANGED dirId /\ Done([op |-> "setIdentity", dir |-> d, id |-> id], "lockExists")
       ELSE IF dirId[d] = None THEN dirId' = [dirId EXCEPT ![d] = id] /\ Done([op |-> "setIdentity", dir |-> d, id |-> id], "ok")
       ELSE IF dirId[d] = id THEN UNCHANGED dirId /\ Done([op |-> "setIdentity", dir |-> d, id |-> id], "ok")
       ELSE UNCHANGED dirId /\ Done([op |-> "setIdentity", dir |-> d, id |-> id], "identityAlreadySet")
    /\ UNCHANGED <<listen, resolve, pooled, dirLock, insts, processed>>

\* raft.go New + Serve on address a with directory d
Serve(d, a) ==
    /\ listen[a].inst = 0
    /\ IF dirId[d] = None
       THEN UNCHANGED <<listen, dirLock, insts>> /\ Done([op |-> "serve", dir |-> d, addr |-> a], "identityNotSet")
       ELSE IF dirLock[d] # 0
       THEN UNCHANGED <<listen, dirLock, insts>> /\ Done([op |-> "serve", dir |-> d, addr |-> a], "lockExists")
       ELSE LET k == Len(insts) + 1 IN
            /\ insts' = Append(insts, [dir |-> d, id |-> dirId[d], addr |-> a, up |-> TRUE])
            /\ dirLock' = [dirLock EXCEPT ![d] = k]
            /\ listen' = [listen EXCEPT ![a] = [id |-> dirId[d], inst |-> k]]
            /\ Done([op |-> "serve", dir |-> d, addr |-> a], "ok")
    /\ UNCHANGED <<resolve, pooled, dirId, processed>>

Shutdown(a) ==
    /\ listen[a].inst # 0
    /\ LET k == listen[a].inst IN
       /\ insts' = [insts EXCEPT ![k].up = FALSE]
       /\ dirLock' = [dirLock EXCEPT ![insts[k].dir] = 0]
       /\ listen' = [listen EXCEPT ![a] = NoListen]
    /\ UNCHANGED <<resolve, pooled, dirId, processed>>
    /\ Done([op |-> "shutdown", addr |-> a], "ok")

\* configuration SetAddr / resolver answer changes
Resolve(t, a) ==
    /\ resolve[t] # a
    /\ resolve' = [resolve EXCEPT ![t] = a]
    /\ UNCHANGED <<listen, pooled, dirId, dirLock, insts, processed>>
    /\ Done([op |-> "resolve", intent |-> t, addr |-> a], "ok")

\* connPool.doRPC of a non-identity request intended for identity t
Rpc(t) ==
    /\ LET k == pooled[t]
           alive == k # 0 /\ insts[k].up
       IN IF alive
          THEN \* pooled connection: no new handshake; the listener behind it is the one verified earlier
               /\ processed' = processed \cup {[by |-> insts[k].id, intent |-> t]}
               /\ UNCHANGED pooled
               /\ Done([op |-> "rpc", intent |-> t], "ok")
          ELSE IF k # 0
          THEN \* the pooled connection is dead (its listener stopped): this call fails, the next one dials
               /\ pooled' = [pooled EXCEPT ![t] = 0] /\ UNCHANGED processed
               /\ Done([op |-> "rpc", intent |-> t], "connError")
          ELSE LET a == resolve[t] IN
               IF listen[a].inst = 0
               THEN /\ pooled' = [pooled EXCEPT ![t] = 0] /\ UNCHANGED processed
                    /\ Done([op |-> "rpc", intent |-> t], "dialError")
               ELSE IF listen[a].id = t
               THEN /\ pooled' = [pooled EXCEPT ![t] = listen[a].inst]
                    /\ processed' = processed \cup {[by |-> t, intent |-> t]}
                    /\ Done([op |-> "rpc", intent |-> t], "ok")
               ELSE \* handshake mismatch: both sides drop the connection, nothing else is sent on it
                    /\ pooled' = [pooled EXCEPT ![t] = 0] /\ UNCHANGED processed
                    /\ Done([op |-> "rpc", intent |-> t], "identityError")
    /\ UNCHANGED <<listen, resolve, dirId, dirLock, insts>>

Next ==
    /\ nops < MaxOps
    /\ \/ \E d \in Dir, id \in Ident : SetIdentity(d, id)
       \/ \E d \in Dir, a \in Addr : Serve(d, a)
       \/ \E a \in Addr : Shutdown(a)
       \/ \E t \in Ident, a \in Addr : Resolve(t, a)
       \/ \E t \in Ident : Rpc(t)

iview == <<listen, resolve, pooled, dirId, dirLock, insts, processed, nops>>

\* C20: a listener only processes requests of dialers that intended exactly its identity
C20_Isolation == \A p \in processed : p.by = p.intent
\* a directory is served by at most one instance at a time; its identity never changes once set
C20_OneServer == \A d \in Dir : Cardinality({k \in 1..Len(insts) : insts[k].up /\ insts[k].dir = d}) <= 1
C20_IdentityStable == \A k \in 1..Len(insts) : insts[k].up => dirId[insts[k].dir] = insts[k].id
=============================================================================
