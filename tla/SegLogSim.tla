----------------------------- MODULE SegLogSim -----------------------------
(* Operation-sequence export: under -simulate every behaviour of MaxOps operations prints its sequence as JSON. *)
EXTENDS SegLog, Json
Dump == (nops = MaxOps) => PrintT(<<"OPS", ToJson(hist)>>)
=============================================================================
