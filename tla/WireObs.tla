------------------------------ MODULE WireObs ------------------------------
(* Evaluates the C18 predicates of Wire.tla on the reports of the real codecs. *)
EXTENDS Wire, Json, IOUtils
Reports == ndJsonDeserialize(IOEnv.VERIF_TRACE)
VARIABLES l, bad
Bad(r) == (IF C18_RoundTrip(r) THEN {} ELSE {<<"C18_RoundTrip", r.id>>})
     \cup (IF C18_Framing(r) THEN {} ELSE {<<"C18_Framing", r.id>>})
     \cup (IF C18_TruncatedFail(r) THEN {} ELSE {<<"C18_TruncatedFail", r.id>>})
OInit == l = 0 /\ bad = {} /\ typ = "resp" /\ vec = << >>
ONext == l < Len(Reports) /\ l' = l + 1 /\ bad' = bad \cup Bad(Reports[l + 1]) /\ UNCHANGED <<typ, vec>>
Report == (l = Len(Reports)) => PrintT(<<"WIRE-RESULT", ToJson(bad), l>>)
=============================================================================
