--------------------------- MODULE IdentityTrace ---------------------------
(***************************************************************************)
(* Conformance of the real dialer / listener / storage-lock code with      *)
(* Identity.tla. One record per executed operation: outcome and the set of *)
(* (listener identity, dialer intent) pairs of all non-identity requests   *)
(* that reached Raft.onRequest so far (verif hook rpc.handled).            *)
(*  C20_Isolation  is evaluated on the OBSERVED set;                       *)
(*  C20_Outcome    = the real outcome of SetIdentity / Serve / rpc differs *)
(*                   from the specification's (e.g. a second Serve on a    *)
(*                   locked directory succeeds, a mismatching handshake is *)
(*                   accepted).                                            *)
(***************************************************************************)
EXTENDS Identity, Json, IOUtils

Trace == ndJsonDeserialize(IOEnv.VERIF_TRACE)
VARIABLES l, skip, viol
O == Trace[l + 1].op
Rec == Trace[l + 1]
Obs(rec) == {[by |-> rec.processed[k][1], intent |-> rec.processed[k][2]] : k \in 1..Len(rec.processed)}

SpecOp ==
    IF O.op = "setIdentity" THEN SetIdentity(O.dir, O.id)
    ELSE IF O.op = "serve" THEN Serve(O.dir, O.addr)
    ELSE IF O.op = "shutdown" THEN Shutdown(O.addr)
    ELSE IF O.op = "resolve" THEN Resolve(O.intent, O.addr)
    ELSE IF O.op = "rpc" THEN Rpc(O.intent)
    ELSE FALSE

TInit == Init /\ l = 0 /\ skip = FALSE /\ viol = {}
TStart ==
    /\ l < Len(Trace) /\ O.op = "init"
    /\ listen' = [a \in Addr |-> NoListen] /\ resolve' = [t \in Ident |-> O.resolve[t]] /\ pooled' = [i \in Ident |-> 0]
    /\ dirId' = [d \in Dir |-> None] /\ dirLock' = [d \in Dir |-> 0] /\ insts' = << >> /\ processed' = {}
    /\ nops' = 0 /\ op' = O /\ res' = "ok" /\ hist' = << >>
    /\ l' = l + 1 /\ skip' = FALSE /\ UNCHANGED viol
TSkip == l < Len(Trace) /\ skip /\ O.op # "init" /\ l' = l + 1 /\ UNCHANGED <<ivars, skip, viol>>
Isol(rec) == \A p \in Obs(rec) : p.by = p.intent
TStep ==
    /\ l < Len(Trace) /\ ~skip /\ O.op # "init"
    /\ SpecOp /\ l' = l + 1
    /\ LET okOut == Rec.res = res' /\ Obs(Rec) = processed'
       IN /\ skip' = ~okOut
          /\ viol' = viol \cup (IF Isol(Rec) THEN {} ELSE {<<"C20_Isolation", Rec.run, Rec.seq>>})
                          \cup (IF okOut THEN {} ELSE {<<"C20_Outcome", Rec.run, Rec.seq>>})
TStuck ==
    /\ l < Len(Trace) /\ ~skip /\ O.op # "init" /\ ~ENABLED TStep
    /\ l' = l + 1 /\ skip' = TRUE /\ UNCHANGED ivars
    /\ viol' = viol \cup {<<"C20_Outcome", Rec.run, Rec.seq>>} \cup (IF Isol(Rec) THEN {} ELSE {<<"C20_Isolation", Rec.run, Rec.seq>>})
TNext == TStart \/ TSkip \/ TStep \/ TStuck
Report == (l = Len(Trace)) => PrintT(<<"IDENT-RESULT", ToJson(viol), l>>)
=============================================================================
