------------------------------ MODULE RaftSim ------------------------------
(* Schedule export: run with -simulate; every behaviour that reaches Depth  *)
(* events prints its event sequence as one JSON line.                       *)
EXTENDS Raft, Json
CONSTANT Depth
Dump == (Len(hist) = Depth) => PrintT(<<"SCHED", ToJson(hist)>>)
=============================================================================
