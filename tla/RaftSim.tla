------------------------------ MODULE RaftSim ------------------------------
(* Schedule export: run with -simulate; every behaviour that reaches Depth  *)
(* events prints its event sequence as one JSON line.                       *)
EXTENDS Raft, Json
CONSTANT Depth
\* (a behaviour that runs out of enabled actions before Depth - the model bounds are exhausted - is printed too)
Dump == (Len(hist) = Depth \/ (Len(hist) >= 20 /\ ~ENABLED Next)) => PrintT(<<"SCHED", ToJson(hist)>>)
=============================================================================
