------------------------------- MODULE SegLog -------------------------------
(***************************************************************************)
(* The segmented, mmap-backed log of package raft/log as an abstract       *)
(* sequence plus exactly the segmentation state that decides its           *)
(* observable behaviour (properties C13, C14).                             *)
(*                                                                         *)
(*   prev, ents      the abstract sequence: entries prev+1 .. prev+Len     *)
(*   bnds, caps      prevIndex and file size of every segment file         *)
(*   synced          last index covered by the on-file entry counts        *)
(*                   (what a process kill preserves: header written by     *)
(*                   segment.sync only)                                    *)
(*   opt             Options.SegmentSize (grows for oversized entries)     *)
(*   views           read-only views handed out by ViewAt                  *)
(* One action per exported operation (log/log.go); `res` is what the call  *)
(* returns/does ("ok", "exceeds", "panic:range").                          *)
(***************************************************************************)
EXTENDS Integers, Sequences, FiniteSets, TLC

CONSTANTS SegSize0,   \* Options.SegmentSize passed to Open (1024 in the harness)
          Sizes,      \* payload sizes an Append may use
          MaxOps, MaxViews

VARIABLES prev, ents, bnds, caps, synced, opt, views, nextId, nops, op, res, pre, hist

lvars == <<prev, ents, bnds, caps, synced, opt, views, nextId, nops, op, res, pre, hist>>
lview == <<prev, ents, bnds, caps, synced, opt, views, nextId, nops, op, res, pre>>

SetMax(S) == CHOOSE x \in S : \A y \in S : y <= x
SetMin(S) == CHOOSE x \in S : \A y \in S : x <= y
Min(a, b) == IF a <= b THEN a ELSE b
Max(a, b) == IF a >= b THEN a ELSE b

Last == prev + Len(ents)
LastB == SetMax(bnds)                     \* prevIndex of the last segment
RECURSIVE Used(_, _)
Used(from, to) == IF from > to THEN 0 ELSE ents[from - prev].size + Used(from + 1, to)
\* log/segment.go available(): file size - 3*8 (header, two sentinel offsets) - 8 per entry - bytes used
Avail == caps[LastB] - 24 - 8 * (Last - LastB) - Used(LastB + 1, Last)

Snapshot == [prev |-> prev, ents |-> ents, synced |-> synced, bnds |-> bnds]
Done(o, r) == /\ op' = o /\ res' = r /\ pre' = Snapshot /\ nops' = nops + 1 /\ hist' = Append(hist, o)
KillViews == << >>    \* views are invalid after RemoveLTE / RemoveGTE (documented): no expectation about them

Init ==
    /\ prev = 0 /\ ents = << >> /\ bnds = {0} /\ caps = (0 :> SegSize0) /\ synced = 0 /\ opt = SegSize0
    /\ views = << >> /\ nextId = 1 /\ nops = 0 /\ op = [op |-> "init"] /\ res = "ok" /\ pre = [prev |-> 0, ents |-> << >>, synced |-> 0, bnds |-> {0}]
    /\ hist = << >>

\* Log.Append
DoAppend(sz) ==
    /\ LET e == [id |-> nextId, size |-> sz] IN
       IF Avail < sz
       THEN IF Last = LastB      \* the last segment is empty: the entry can never fit
            THEN /\ UNCHANGED <<prev, ents, bnds, caps, synced, opt, views>>
                 /\ Done([op |-> "append", size |-> sz, id |-> nextId], "exceeds")
            ELSE LET o2 == IF sz > opt - 24 THEN sz + 24 ELSE opt IN
                 /\ opt' = o2
                 /\ synced' = Last                 \* the full segment is committed before the new file is created
                 /\ bnds' = bnds \cup {Last}
                 /\ caps' = [b \in bnds \cup {Last} |-> IF b = Last THEN o2 ELSE caps[b]]
                 /\ ents' = Append(ents, e)
                 /\ UNCHANGED <<prev, views>>
                 /\ Done([op |-> "append", size |-> sz, id |-> nextId], "ok")
       ELSE /\ ents' = Append(ents, e)
            /\ UNCHANGED <<prev, bnds, caps, synced, opt, views>>
            /\ Done([op |-> "append", size |-> sz, id |-> nextId], "ok")
    /\ nextId' = nextId + 1

DoCommit ==
    /\ synced' = Last
    /\ UNCHANGED <<prev, ents, bnds, caps, opt, views, nextId>>
    /\ Done([op |-> "commit"], "ok")

\* DoCommitN(n): only the last segment can be dirty; it is flushed (completely) iff it starts below n
DoCommitN(n) ==
    /\ synced' = IF LastB < n THEN Last ELSE synced
    /\ UNCHANGED <<prev, ents, bnds, caps, opt, views, nextId>>
    /\ Done([op |-> "commitN", i |-> n], "ok")

CanLTE(i) == SetMax({b \in bnds : b <= i \/ b = prev})

\* DoRemoveLTE(i): commits, then removes whole segments from the front, never the last one
DoRemoveLTE(i) ==
    /\ LET p == CanLTE(i) IN
       /\ prev' = p
       /\ ents' = SubSeq(ents, p - prev + 1, Len(ents))
       /\ bnds' = {b \in bnds : b >= p}
       /\ caps' = [b \in {x \in bnds : x >= p} |-> caps[b]]
    /\ synced' = Last
    /\ views' = KillViews
    /\ UNCHANGED <<opt, nextId>>
    /\ Done([op |-> "removeLTE", i |-> i], "ok")

\* DoRemoveGTE(i): commits, removes whole segments from the back, lowers the entry count of the segment holding i
DoRemoveGTE(i) ==
    /\ IF i <= prev
       THEN \* every segment goes; a fresh one is created at i-1 (at 0 for i = 0)
            LET np == IF i > 0 THEN i - 1 ELSE 0 IN
            /\ prev' = np /\ ents' = << >> /\ bnds' = {np} /\ caps' = (np :> opt) /\ synced' = np
       ELSE \* segments starting at or after i-1 are removed (an empty trailing segment too), except the first one
            LET keep == {b \in bnds : b < i - 1}
                nb   == IF keep = {} THEN {prev} ELSE keep
                nl   == Min(i - 1, Last)
            IN /\ ents' = SubSeq(ents, 1, nl - prev)
               /\ bnds' = nb /\ caps' = [b \in nb |-> caps[b]]
               /\ synced' = nl /\ UNCHANGED prev
    /\ views' = KillViews
    /\ UNCHANGED <<opt, nextId>>
    /\ Done([op |-> "removeGTE", i |-> i], "ok")

DoReset(i) ==
    /\ prev' = i /\ ents' = << >> /\ bnds' = {i} /\ caps' = (i :> opt) /\ synced' = i
    /\ views' = << >>
    /\ UNCHANGED <<opt, nextId>>
    /\ Done([op |-> "reset", i |-> i], "ok")

\* Close (commits everything) followed by Open with the original options
DoReopen ==
    /\ synced' = Last /\ opt' = SegSize0 /\ views' = << >>
    /\ UNCHANGED <<prev, ents, bnds, caps, nextId>>
    /\ Done([op |-> "reopen"], "ok")

\* process kill between two operations, then Open: entries beyond the on-file counts are gone
DoCrashReopen ==
    /\ ents' = SubSeq(ents, 1, synced - prev) /\ opt' = SegSize0 /\ views' = << >>
    /\ UNCHANGED <<prev, bnds, caps, synced, nextId>>
    /\ Done([op |-> "crashReopen"], "ok")

\* DoViewAt(p, l): panics beyond LastIndex, nil outside the log, else a frozen range
DoViewAt(p, l) ==
    /\ Len(views) < MaxViews
    /\ IF l > Last
       THEN UNCHANGED views /\ Done([op |-> "view", p |-> p, l |-> l], "panic:range")
       ELSE /\ views' = Append(views, [p |-> p, l |-> l, nil |-> (p > l \/ p < prev), live |-> TRUE,
                                       ents |-> IF p > l \/ p < prev THEN << >> ELSE SubSeq(ents, p - prev + 1, l - prev)])
            /\ Done([op |-> "view", p |-> p, l |-> l], "ok")
    /\ UNCHANGED <<prev, ents, bnds, caps, synced, opt, nextId>>

Next ==
    /\ nops < MaxOps
    /\ \/ \E sz \in Sizes : DoAppend(sz)
       \/ DoCommit
       \/ \E n \in prev..(Last + 1) : DoCommitN(n) \/ DoRemoveLTE(n) \/ DoRemoveGTE(n)
       \/ (prev > 0 /\ \E n \in {prev - 1} : DoRemoveGTE(n))
       \/ \E n \in {Last, Last + 3} : DoReset(n)
       \/ DoReopen \/ DoCrashReopen
       \/ \E p \in (IF prev > 0 THEN prev - 1 ELSE 0)..Last, l \in prev..(Last + 1) : DoViewAt(p, l)

Spec == Init /\ [][Next]_lvars

--------------------------------------------------------------------------
(* C13: the exported API describes exactly the abstract sequence           *)
Inv_Shape ==
    /\ prev = SetMin(bnds) /\ bnds \subseteq prev..Last /\ DOMAIN caps = bnds
    /\ prev <= synced /\ synced <= Last
    /\ \A b \in bnds : b > LastB \/ b <= synced      \* only the last segment can hold unflushed entries
\* front removal removes whole segments only and never beyond the requested index
Inv_RemoveLTE == (op.op = "removeLTE") => (prev <= Max(op.i, pre.prev) /\ prev \in pre.bnds)
\* a live view still denotes the same entries
Inv_Views == \A k \in 1..Len(views) : (views[k].live /\ ~views[k].nil) =>
                 views[k].ents = SubSeq(ents, views[k].p - prev + 1, views[k].l - prev)
\* an entry never straddles two segments and every non-last segment is within its file size
Inv_Fits == Avail >= -8   \* data never overlaps the offset table (the slot of the NEXT entry may not fit: -8)

--------------------------------------------------------------------------
(* C14: what reopening after a crash inside the last operation may yield   *)
(* img = [opened, prev, last, ents = <<[i, id, size, ok]>>]                *)
EntryKnown(e, sa, sb) ==
    \/ (e.i > sa.prev /\ e.i <= sa.prev + Len(sa.ents) /\ (e.size = 0 \/ sa.ents[e.i - sa.prev].id = e.id) /\ sa.ents[e.i - sa.prev].size = e.size)
    \/ (e.i > sb.prev /\ e.i <= sb.prev + Len(sb.ents) /\ (e.size = 0 \/ sb.ents[e.i - sb.prev].id = e.id) /\ sb.ents[e.i - sb.prev].size = e.size)
RecoverOK(img, o, sa, sb) ==
    /\ img.opened
    /\ \A k \in 1..Len(img.ents) : img.ents[k].ok /\ img.ents[k].i = img.prev + k /\ EntryKnown(img.ents[k], sa, sb)
    /\ img.last = img.prev + Len(img.ents)
    \* every entry covered by the last completed commit survives, unless this operation removes it
    \* (from the back: removeGTE / reset; from the front: removeLTE)
    /\ LET lastB == sb.prev + Len(sb.ents)
           must  == IF o.op \in {"removeGTE", "reset"} THEN Min(sa.synced, lastB) ELSE sa.synced
       IN \A i \in (Max(sa.prev, sb.prev) + 1)..must : i > img.prev /\ i <= img.last
    \* nothing that was never appended
    /\ img.last <= Max(sa.prev + Len(sa.ents), sb.prev + Len(sb.ents))
=============================================================================
