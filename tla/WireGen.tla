------------------------------ MODULE WireGen ------------------------------
(* Vector export: every initial state of Wire.tla is one implementation test. *)
EXTENDS Wire, Json
Dump == PrintT(<<"VEC", ToJson([typ |-> typ, vec |-> vec])>>)
=============================================================================
