------------------------------ MODULE RaftObs ------------------------------
(***************************************************************************)
(* Observation checking (O): the cluster state is SET from the sequence of *)
(* states recorded from the real code (Layer-1 harness records or live     *)
(* traces); TLC evaluates the property operators of RaftProps on it.       *)
(* A property operator that fails here failed on behaviour the real code   *)
(* actually exhibited.  Many recorded runs are concatenated in one file;   *)
(* a record whose ev.kind = "init" starts a new run (ghosts reset).        *)
(* Result: one line  OBS-RESULT <json>  listing (property, run, seq) of    *)
(* the first failure of each property in each run.                         *)
(***************************************************************************)
EXTENDS RaftProps, Json, IOUtils

Trace == ndJsonDeserialize(IOEnv.VERIF_TRACE)

VARIABLES l, gh, cur, viol
ovars == <<l, gh, cur, viol>>

NodesFun(seq) == [i \in {seq[k].id : k \in 1..Len(seq)} |->
                    LET k == CHOOSE k \in 1..Len(seq) : seq[k].id = i
                    IN [voter |-> seq[k].voter, action |-> seq[k].action]]
CfgOf(c) == [index |-> c.index, term |-> c.term, nodes |-> NodesFun(c.nodes)]
EntryOf(e) == [t |-> e.t, y |-> e.y, v |-> e.v, c |-> NodesFun(e.c)]
NodeOf(j) == [id |-> j.id, up |-> j.up, inc |-> j.inc, died |-> j.died,
              term |-> j.term, vote |-> j.vote, dterm |-> j.disk.term, dvote |-> j.disk.vote,
              state |-> j.state, leader |-> j.leader, commit |-> j.commit,
              logPrev |-> j.logPrev, log |-> [k \in 1..Len(j.log) |-> EntryOf(j.log[k])], synced |-> j.synced,
              snapIdx |-> j.snap.index, snapTerm |-> j.snap.term, snapCfg |-> CfgOf(j.snap.cfg), snapCmds |-> j.snap.cmds,
              cfgC |-> CfgOf(j.cfgC), cfgL |-> CfgOf(j.cfgL),
              fsmIdx |-> j.fsm.index, fsmCmds |-> j.fsm.cmds, ldr |-> j.ldr]
Cluster(rec) == [i \in {rec.nodes[k].id : k \in 1..Len(rec.nodes)} |->
                    NodeOf(rec.nodes[CHOOSE k \in 1..Len(rec.nodes) : rec.nodes[k].id = i])]

ActOf(a) == IF "voters" \in DOMAIN a THEN [a EXCEPT !.voters = {a.voters[k] : k \in 1..Len(a.voters)}] ELSE a

Failed(g, ns) ==
       (IF C01_ElectionSafety(g) THEN {} ELSE {"C01_ElectionSafety"})
  \cup (IF C02_CommittedAgree(g, ns) THEN {} ELSE {"C02_CommittedAgree"})
  \cup (IF C02_LeaderCompleteness(g, ns) THEN {} ELSE {"C02_LeaderCompleteness"})
  \cup (IF C03_FsmIsCommittedPrefix(g, ns) THEN {} ELSE {"C03_FsmIsCommittedPrefix"})
  \cup (IF C03_FsmNotAhead(g, ns) THEN {} ELSE {"C03_FsmNotAhead"})
  \cup (IF C04_LogMatching(ns) THEN {} ELSE {"C04_LogMatching"})
  \cup (IF C05_OneVotePerTerm(g) THEN {} ELSE {"C05_OneVotePerTerm"})
  \cup (IF C06_MajorityDurable(g) THEN {} ELSE {"C06_MajorityDurable"})
  \cup (IF C15_NoSelfInflictedDeath(ns) THEN {} ELSE {"C15_NoSelfInflictedDeath"})
  \cup (IF C09_SnapshotCommitted(g, ns) THEN {} ELSE {"C09_SnapshotCommitted"})
  \cup (IF C09_NoViewInvalidation(ns) THEN {} ELSE {"C09_NoViewInvalidation"})
  \cup (IF C12_LabelOK(g, ns) THEN {} ELSE {"C12_LabelOK"})
  \cup (IF C08_OneVoterDelta(ns) THEN {} ELSE {"C08_OneVoterDelta"})
  \cup (IF C11_DemotedLeaderStepsDown(ns) THEN {} ELSE {"C11_DemotedLeaderStepsDown"})
  \cup (IF C07_AtMostOnce(ns) THEN {} ELSE {"C07_AtMostOnce"})
  \cup (IF C07_RejectedNeverApplied(g, ns) THEN {} ELSE {"C07_RejectedNeverApplied"})
  \cup (IF C07_RealTimeOrder(g, ns) THEN {} ELSE {"C07_RealTimeOrder"})
  \cup (IF C19_Ordered(ns) THEN {} ELSE {"C19_Ordered"})
  \cup (IF C19_LatestIsNewest(ns) THEN {} ELSE {"C19_LatestIsNewest"})
  \cup g.bad

Init == l = 0 /\ gh = GhostInit({}) /\ cur = << >> /\ viol = {}

Next ==
    /\ l < Len(Trace)
    /\ l' = l + 1
    /\ LET rec   == Trace[l + 1]
           after == Cluster(rec)
           start == rec.ev.kind = "init"
           g0    == IF start THEN GhostInit(DOMAIN after) ELSE gh
           b0    == IF start THEN after ELSE cur
           ev0   == IF "acts" \in DOMAIN rec.ev THEN [rec.ev EXCEPT !.acts = {ActOf(rec.ev.acts[k]) : k \in 1..Len(rec.ev.acts)}] ELSE rec.ev
           evx   == IF "done" \in DOMAIN rec /\ "done" \notin DOMAIN ev0
                    THEN ev0 @@ [done |-> {LET d == rec.done[k] IN
                                           [n |-> d.n, op |-> d.op, res |-> d.err, k |-> k, task |-> d.task, val |-> d.val,
                                            pos |-> IF "pos" \in DOMAIN d THEN d.pos ELSE 0,
                                            rd |-> IF "read" \in DOMAIN d THEN d.read ELSE << >>] : k \in 1..Len(rec.done)}]
                    ELSE ev0
           g1    == GhostStep(g0, b0, after, evx, DOMAIN after)
           seen  == IF start THEN {} ELSE {v[1] : v \in {w \in viol : w[2] = rec.sched}}
           new   == Failed(g1, after) \ seen
       IN /\ gh' = g1
          /\ cur' = after
          /\ viol' = viol \cup {<<p, rec.sched, rec.seq>> : p \in new}

Spec == Init /\ [][Next]_ovars

Report == (l = Len(Trace)) => PrintT(<<"OBS-RESULT", ToJson(viol), l>>)
=============================================================================
